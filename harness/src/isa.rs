//! Independent description of the eBPF instruction set: encoding, opcode table, operand shapes,
//! mnemonics. Written from the ISA documentation, not from rbpf's tables.

#[derive(Clone, Copy, PartialEq, Eq, Debug, Default)]
pub struct Insn {
    pub opc: u8,
    pub dst: u8,
    pub src: u8,
    pub off: i16,
    pub imm: i32,
}

impl Insn {
    pub fn new(opc: u8, dst: u8, src: u8, off: i16, imm: i32) -> Insn {
        Insn { opc, dst, src, off, imm }
    }
    pub fn bytes(&self) -> [u8; 8] {
        let o = self.off.to_le_bytes();
        let i = self.imm.to_le_bytes();
        [self.opc, (self.src << 4) | (self.dst & 0xf), o[0], o[1], i[0], i[1], i[2], i[3]]
    }
}

pub fn decode(b: &[u8]) -> Insn {
    Insn {
        opc: b[0],
        dst: b[1] & 0xf,
        src: b[1] >> 4,
        off: i16::from_le_bytes([b[2], b[3]]),
        imm: i32::from_le_bytes([b[4], b[5], b[6], b[7]]),
    }
}

pub fn decode_at(prog: &[u8], pc: usize) -> Insn {
    decode(&prog[pc * 8..pc * 8 + 8])
}

pub fn encode_prog(insns: &[Insn]) -> Vec<u8> {
    let mut v = Vec::with_capacity(insns.len() * 8);
    for i in insns {
        v.extend_from_slice(&i.bytes());
    }
    v
}

// classes
pub const CLS_LD: u8 = 0;
pub const CLS_LDX: u8 = 1;
pub const CLS_ST: u8 = 2;
pub const CLS_STX: u8 = 3;
pub const CLS_ALU: u8 = 4;
pub const CLS_JMP: u8 = 5;
pub const CLS_JMP32: u8 = 6;
pub const CLS_ALU64: u8 = 7;

pub const LDDW: u8 = 0x18;
pub const CALL: u8 = 0x85;
pub const TAIL_CALL: u8 = 0x8d;
pub const EXIT: u8 = 0x95;
pub const JA: u8 = 0x05;
pub const LE: u8 = 0xd4;
pub const BE: u8 = 0xdc;
pub const XADD_W: u8 = 0xc3;
pub const XADD_DW: u8 = 0xdb;
pub const NEG32: u8 = 0x84;
pub const NEG64: u8 = 0x87;
pub const MOV64_IMM: u8 = 0xb7;
pub const MOV64_REG: u8 = 0xbf;
pub const MOV32_IMM: u8 = 0xb4;
pub const MOV32_REG: u8 = 0xbc;
pub const ADD64_IMM: u8 = 0x07;
pub const ADD64_REG: u8 = 0x0f;
pub const SUB64_IMM: u8 = 0x17;
pub const SUB64_REG: u8 = 0x1f;
pub const XOR64_REG: u8 = 0xaf;
pub const MUL64_IMM: u8 = 0x27;
pub const LDXB: u8 = 0x71;
pub const LDXH: u8 = 0x69;
pub const LDXW: u8 = 0x61;
pub const LDXDW: u8 = 0x79;
pub const STB: u8 = 0x72;
pub const STH: u8 = 0x6a;
pub const STW: u8 = 0x62;
pub const STDW: u8 = 0x7a;
pub const STXB: u8 = 0x73;
pub const STXH: u8 = 0x6b;
pub const STXW: u8 = 0x63;
pub const STXDW: u8 = 0x7b;
pub const JEQ_IMM: u8 = 0x15;
pub const JNE_IMM: u8 = 0x55;
pub const JGT_IMM: u8 = 0x25;

/// ALU operation numbers (high nibble)
pub const ALU_NAMES: [&str; 13] = ["add", "sub", "mul", "div", "or", "and", "lsh", "rsh", "neg", "mod", "xor", "mov", "arsh"];
/// JMP condition numbers (high nibble); index 0 = ja, 8 = call, 9 = exit
pub const JMP_NAMES: [&str; 14] = ["ja", "jeq", "jgt", "jge", "jset", "jne", "jsgt", "jsge", "call", "exit", "jlt", "jle", "jslt", "jsle"];

#[derive(Clone, Copy, PartialEq, Eq, Debug)]
pub enum Shape {
    AluImm,
    AluReg,
    Unary,
    Endian,
    LdAbs,
    LdInd,
    LdReg,
    StImm,
    StReg,
    Xadd,
    Ja,
    JmpImm,
    JmpReg,
    Call,
    TailCall,
    Exit,
    Lddw,
}

#[derive(Clone, Copy, Debug)]
pub struct OpInfo {
    pub opc: u8,
    pub shape: Shape,
    /// access width in bytes for memory instructions, 0 otherwise
    pub width: u8,
    /// 64-bit ALU/JMP (true) or 32-bit (false); meaningless for memory ops
    pub is64: bool,
}

fn size_of_code(sz: u8) -> u8 {
    match sz {
        0x00 => 4,
        0x08 => 2,
        0x10 => 1,
        _ => 8,
    }
}

/// Returns the description of a supported opcode, None for unsupported ones.
pub fn op_info(opc: u8) -> Option<OpInfo> {
    let cls = opc & 7;
    let mk = |shape, width, is64| Some(OpInfo { opc, shape, width, is64 });
    match cls {
        CLS_LD => {
            let mode = opc & 0xe0;
            let sz = opc & 0x18;
            match mode {
                0x00 if sz == 0x18 => mk(Shape::Lddw, 0, true),
                0x20 => mk(Shape::LdAbs, size_of_code(sz), true),
                0x40 => mk(Shape::LdInd, size_of_code(sz), true),
                _ => None,
            }
        }
        CLS_LDX => {
            if opc & 0xe0 == 0x60 { mk(Shape::LdReg, size_of_code(opc & 0x18), true) } else { None }
        }
        CLS_ST => {
            if opc & 0xe0 == 0x60 { mk(Shape::StImm, size_of_code(opc & 0x18), true) } else { None }
        }
        CLS_STX => match opc & 0xe0 {
            0x60 => mk(Shape::StReg, size_of_code(opc & 0x18), true),
            0xc0 if opc & 0x18 == 0x00 || opc & 0x18 == 0x18 => mk(Shape::Xadd, size_of_code(opc & 0x18), true),
            _ => None,
        },
        CLS_ALU | CLS_ALU64 => {
            let op = opc >> 4;
            let x = opc & 0x08 != 0;
            let is64 = cls == CLS_ALU64;
            match op {
                0..=7 | 9..=12 => mk(if x { Shape::AluReg } else { Shape::AluImm }, 0, is64),
                8 => {
                    if x { None } else { mk(Shape::Unary, 0, is64) }
                }
                13 => {
                    if is64 { None } else { mk(Shape::Endian, 0, false) }
                }
                _ => None,
            }
        }
        CLS_JMP | CLS_JMP32 => {
            let op = opc >> 4;
            let x = opc & 0x08 != 0;
            let is64 = cls == CLS_JMP;
            match op {
                0 => {
                    if is64 && !x { mk(Shape::Ja, 0, true) } else { None }
                }
                1..=7 | 10..=13 => mk(if x { Shape::JmpReg } else { Shape::JmpImm }, 0, is64),
                8 => {
                    if !is64 { None } else if x { mk(Shape::TailCall, 0, true) } else { mk(Shape::Call, 0, true) }
                }
                9 => {
                    if is64 && !x { mk(Shape::Exit, 0, true) } else { None }
                }
                _ => None,
            }
        }
        _ => None,
    }
}

pub fn all_supported_opcodes() -> Vec<u8> {
    (0..=255u8).filter(|o| op_info(*o).is_some()).collect()
}

fn size_suffix(width: u8) -> &'static str {
    match width {
        1 => "b",
        2 => "h",
        4 => "w",
        _ => "dw",
    }
}

/// Canonical (disassembler-style) mnemonic of an opcode, e.g. "add32", "ldxdw", "jeq", "jeq32".
/// For byte swaps returns "le"/"be" (the width is an operand). `src` selects call/callx.
pub fn mnemonic(opc: u8, src: u8) -> Option<String> {
    let info = op_info(opc)?;
    let cls = opc & 7;
    Some(match info.shape {
        Shape::Lddw => "lddw".to_string(),
        Shape::LdAbs => format!("ldabs{}", size_suffix(info.width)),
        Shape::LdInd => format!("ldind{}", size_suffix(info.width)),
        Shape::LdReg => format!("ldx{}", size_suffix(info.width)),
        Shape::StImm => format!("st{}", size_suffix(info.width)),
        Shape::StReg => format!("stx{}", size_suffix(info.width)),
        Shape::Xadd => format!("stxxadd{}", size_suffix(info.width)),
        Shape::AluImm | Shape::AluReg | Shape::Unary => {
            format!("{}{}", ALU_NAMES[(opc >> 4) as usize], if cls == CLS_ALU64 { "64" } else { "32" })
        }
        Shape::Endian => (if opc & 8 != 0 { "be" } else { "le" }).to_string(),
        Shape::Ja => "ja".to_string(),
        Shape::JmpImm | Shape::JmpReg => {
            format!("{}{}", JMP_NAMES[(opc >> 4) as usize], if cls == CLS_JMP32 { "32" } else { "" })
        }
        Shape::Call => (if src == 1 { "callx" } else { "call" }).to_string(),
        Shape::TailCall => "tail_call".to_string(),
        Shape::Exit => "exit".to_string(),
    })
}

/// Which fields an instruction of this shape uses: (dst, src, off, imm)
pub fn used_fields(shape: Shape) -> (bool, bool, bool, bool) {
    match shape {
        Shape::AluImm => (true, false, false, true),
        Shape::AluReg => (true, true, false, false),
        Shape::Unary => (true, false, false, false),
        Shape::Endian => (true, false, false, true),
        Shape::LdAbs => (false, false, false, true),
        Shape::LdInd => (false, true, false, true),
        Shape::LdReg => (true, true, true, false),
        Shape::StImm => (true, false, true, true),
        Shape::StReg | Shape::Xadd => (true, true, true, false),
        Shape::Ja => (false, false, true, false),
        Shape::JmpImm => (true, false, true, true),
        Shape::JmpReg => (true, true, true, false),
        Shape::Call => (false, true, false, true), // src selects call kind
        Shape::TailCall | Shape::Exit => (false, false, false, false),
        Shape::Lddw => (true, false, false, true),
    }
}

/// Assembler mnemonic table: name -> (shape class for operands, opcode without the K/X bit for
/// ALU/JMP). Written from the documented syntax (README / assembler docs).
#[derive(Clone, Copy, PartialEq, Eq, Debug)]
pub enum AsmKind {
    AluBinary, // rD, imm | rD, rS
    AluUnary,
    LoadImm, // lddw rD, imm64
    LoadAbs,
    LoadInd,
    LoadReg,
    StoreImm,
    StoreReg,
    JumpUncond,
    JumpCond,
    Call,
    Callx,
    Endian(i32),
    NoOperand,
}

pub fn asm_table() -> Vec<(String, AsmKind, u8)> {
    let mut t: Vec<(String, AsmKind, u8)> = Vec::new();
    t.push(("exit".into(), AsmKind::NoOperand, EXIT));
    t.push(("ja".into(), AsmKind::JumpUncond, JA));
    t.push(("call".into(), AsmKind::Call, CALL));
    t.push(("callx".into(), AsmKind::Callx, CALL));
    t.push(("lddw".into(), AsmKind::LoadImm, LDDW));
    t.push(("neg".into(), AsmKind::AluUnary, NEG64));
    t.push(("neg32".into(), AsmKind::AluUnary, NEG32));
    t.push(("neg64".into(), AsmKind::AluUnary, NEG64));
    for (i, n) in ALU_NAMES.iter().enumerate() {
        if *n == "neg" {
            continue;
        }
        let code = (i as u8) << 4;
        t.push((n.to_string(), AsmKind::AluBinary, code | CLS_ALU64));
        t.push((format!("{n}32"), AsmKind::AluBinary, code | CLS_ALU));
        t.push((format!("{n}64"), AsmKind::AluBinary, code | CLS_ALU64));
    }
    for (sfx, sz) in [("w", 0x00u8), ("h", 0x08), ("b", 0x10), ("dw", 0x18)] {
        t.push((format!("ldabs{sfx}"), AsmKind::LoadAbs, 0x20 | CLS_LD | sz));
        t.push((format!("ldind{sfx}"), AsmKind::LoadInd, 0x40 | CLS_LD | sz));
        t.push((format!("ldx{sfx}"), AsmKind::LoadReg, 0x60 | CLS_LDX | sz));
        t.push((format!("st{sfx}"), AsmKind::StoreImm, 0x60 | CLS_ST | sz));
        t.push((format!("stx{sfx}"), AsmKind::StoreReg, 0x60 | CLS_STX | sz));
    }
    for (i, n) in JMP_NAMES.iter().enumerate() {
        if matches!(*n, "ja" | "call" | "exit") {
            continue;
        }
        let code = (i as u8) << 4;
        t.push((n.to_string(), AsmKind::JumpCond, code | CLS_JMP));
        t.push((format!("{n}32"), AsmKind::JumpCond, code | CLS_JMP32));
    }
    for w in [16, 32, 64] {
        t.push((format!("be{w}"), AsmKind::Endian(w), BE));
        t.push((format!("le{w}"), AsmKind::Endian(w), LE));
    }
    t
}

/// Operand as written in assembly.
#[derive(Clone, Copy, PartialEq, Eq, Debug)]
pub enum Opnd {
    Reg(i128),
    Int(i128),
    Mem(i128, i128),
}

/// Reference encoder: mnemonic + operands -> instruction(s), or None when the documented syntax
/// rejects it (unknown mnemonic, wrong shape, out-of-range operand).
pub fn ref_encode(table: &[(String, AsmKind, u8)], name: &str, ops: &[Opnd]) -> Option<Vec<Insn>> {
    let (_, kind, opc) = table.iter().find(|(n, _, _)| n == name)?;
    let reg_ok = |r: i128| (0..16).contains(&r);
    let off_ok = |o: i128| (-32768..=32767).contains(&o);
    let imm_ok = |i: i128| (-2147483648..=2147483647).contains(&i);
    let mk = |opc: u8, dst: i128, src: i128, off: i128, imm: i128| -> Option<Vec<Insn>> {
        if reg_ok(dst) && reg_ok(src) && off_ok(off) && imm_ok(imm) {
            Some(vec![Insn::new(opc, dst as u8, src as u8, off as i16, imm as i32)])
        } else {
            None
        }
    };
    use Opnd::*;
    match (*kind, ops) {
        (AsmKind::AluBinary, [Reg(d), Reg(s)]) => mk(opc | 0x08, *d, *s, 0, 0),
        (AsmKind::AluBinary, [Reg(d), Int(i)]) => mk(*opc, *d, 0, 0, *i),
        (AsmKind::AluUnary, [Reg(d)]) => mk(*opc, *d, 0, 0, 0),
        (AsmKind::LoadAbs, [Int(i)]) => mk(*opc, 0, 0, 0, *i),
        (AsmKind::LoadInd, [Reg(s), Int(i)]) => mk(*opc, 0, *s, 0, *i),
        (AsmKind::LoadReg, [Reg(d), Mem(s, o)]) => mk(*opc, *d, *s, *o, 0),
        (AsmKind::StoreReg, [Mem(d, o), Reg(s)]) => mk(*opc, *d, *s, *o, 0),
        (AsmKind::StoreImm, [Mem(d, o), Int(i)]) => mk(*opc, *d, 0, *o, *i),
        (AsmKind::NoOperand, []) => mk(*opc, 0, 0, 0, 0),
        (AsmKind::JumpUncond, [Int(o)]) => mk(*opc, 0, 0, *o, 0),
        (AsmKind::JumpCond, [Reg(d), Reg(s), Int(o)]) => mk(opc | 0x08, *d, *s, *o, 0),
        (AsmKind::JumpCond, [Reg(d), Int(i), Int(o)]) => mk(*opc, *d, 0, *o, *i),
        (AsmKind::Call, [Int(i)]) => mk(*opc, 0, 0, 0, *i),
        (AsmKind::Callx, [Int(i)]) => mk(*opc, 0, 1, 0, *i),
        (AsmKind::Endian(w), [Reg(d)]) => mk(*opc, *d, 0, 0, w as i128),
        (AsmKind::LoadImm, [Reg(d), Int(i)]) => {
            // any 64-bit value, signed or unsigned spelling
            if !reg_ok(*d) || *i < -(1i128 << 63) || *i > u64::MAX as i128 {
                return None;
            }
            let v = *i as u64; // two's complement truncation
            Some(vec![
                Insn::new(*opc, *d as u8, 0, 0, v as u32 as i32),
                Insn::new(0, 0, 0, 0, (v >> 32) as u32 as i32),
            ])
        }
        _ => None,
    }
}
