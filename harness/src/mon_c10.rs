//! C10: loading, verifying and compiling stay consistent over any history of API calls.
//! Every history runs against the real API in a forked child; each call's observable result is
//! recorded at the API boundary and compared offline with an abstract VM state machine. Every
//! program in the pool returns a unique id, so an observed value identifies which program ran.

use crate::engines::{Kind, Vm};
use crate::hlp;
use crate::isa::*;
use crate::report::Report;
use crate::sys::{self, CaseEnd, GuardBuf};
use crate::util::{hex, Rng};
use crate::Args;
use serde_json::json;

type RErr = rbpf::lib::Error;

fn v_accept_all(_p: &[u8]) -> Result<(), RErr> {
    Ok(())
}
fn v_reject_all(_p: &[u8]) -> Result<(), RErr> {
    Err(RErr::other("reject-all verifier"))
}
/// custom verifier: accepts exactly the programs whose id (low byte of the first immediate) is even
fn v_custom(p: &[u8]) -> Result<(), RErr> {
    if p.len() >= 8 && p[4] % 2 == 0 { Ok(()) } else { Err(RErr::other("custom verifier: odd program id")) }
}
fn v_default_like(p: &[u8]) -> Result<(), RErr> {
    // "default" is re-installed by constructing a throw-away VM with the built-in verifier
    rbpf::EbpfVmNoData::new(Some(p)).map(|_| ())
}

/// stack-usage calculator installed by the SetCalc operation: depends on the PROGRAM (its id byte),
/// so frame sizes computed for one program are recognisably wrong for another
thread_local! {
    /// armed by `Op::SetProgramCalcPanics`: the stack-usage calculator panics (a user callback failing
    /// in the middle of a load; the caller catches the unwind and keeps using the VM)
    static CALC_PANICS: std::cell::Cell<bool> = const { std::cell::Cell::new(false) };
}
fn calc_by_prog(prog: &[u8], _pc: usize, _d: &mut dyn std::any::Any) -> u16 {
    if CALC_PANICS.with(|c| c.get()) {
        panic!("harness: the stack usage calculator panics on purpose");
    }
    8 * (1 + (prog[4] % 16) as u16)
}
fn frame_of(p: &PoolProg, calc: bool) -> u64 {
    if calc { 8 * (1 + (p.bytes[4] % 16) as u64) } else { 256 }
}

#[derive(Clone, Copy, PartialEq, Eq, Debug)]
pub enum Ver {
    Default,
    AcceptAll,
    RejectAll,
    Custom,
}

#[derive(Clone)]
pub struct PoolProg {
    pub bytes: Vec<u8>,
    pub id: u64,
    pub needs_helper: bool,
    /// the program reports its caller-to-callee frame pointer distance (xor-ed into the id)
    frame_probe: bool,
    default_ok: bool,
    /// offsets the program was written for (fixed VM probe programs)
    pub probe: Option<(usize, usize)>,
    /// this program is the first `len` bytes of pool program #i's buffer (same start address)
    pub prefix_of: Option<(usize, usize)>,
    /// fixed VM only: reads the internal buffer beyond the 16 bytes its offsets (0, 8) need; the
    /// outcome (an error on this tree) is whatever a fresh VM gives - never predicted by the model
    pub tail_probe: bool,
    /// interpreter only: folds stack slots it never wrote into its result. No value is predicted
    /// (the properties do not say what an unwritten slot holds); every execution of the program
    /// in a history, and a VM built from scratch on another thread, must agree on it
    pub stack_read: bool,
}

const HELPER_ID: u32 = 7;
const HARGS: [u64; 5] = [11, 22, 33, 44, 55];

pub fn mk_pool(rng: &mut Rng, pkt_addr: u64) -> Vec<PoolProg> {
    let mut pool = Vec::new();
    let mut next_id = |rng: &mut Rng, parity: u64| -> u64 { ((rng.next() & 0x7fff_ffff_ffff_ff00) | (rng.below(127) * 2 + parity)) & !0x8000_0000 };
    for k in 0..12 {
        let id = next_id(rng, k % 2);
        let mut v: Vec<Insn> = vec![Insn::new(LDDW, 0, 0, 0, id as u32 as i32), Insn::new(0, 0, 0, 0, (id >> 32) as u32 as i32)];
        let mut needs_helper = false;
        let mut frame_probe = false;
        let mut default_ok = true;
        let mut probe = None;
        match k {
            0..=3 => {}
            4 | 5 => {
                // calls helper 7 and mixes the result into the id
                needs_helper = true;
                v.push(Insn::new(MOV64_REG, 6, 0, 0, 0));
                for (i, a) in HARGS.iter().enumerate() {
                    v.push(Insn::new(MOV64_IMM, i as u8 + 1, 0, 0, *a as i32));
                }
                v.push(Insn::new(CALL, 0, 0, 0, HELPER_ID as i32));
                v.push(Insn::new(XOR64_REG, 0, 6, 0, 0));
            }
            6 | 7 => {
                // refused by the default verifier (dead self-jump), harmless to run and to compile
                default_ok = false;
                v.push(Insn::new(JA, 0, 0, 1, 0));
                v.push(Insn::new(JA, 0, 0, -1, 0));
            }
            10 | 11 => {
                // local call; the callee returns caller_r10 - own_r10 (= the caller's frame size)
                frame_probe = true;
                v.push(Insn::new(MOV64_REG, 6, 0, 0, 0));
                v.push(Insn::new(MOV64_REG, 2, 10, 0, 0));
                v.push(Insn::new(CALL, 0, 1, 0, 2));
                v.push(Insn::new(XOR64_REG, 0, 6, 0, 0));
                v.push(Insn::new(EXIT, 0, 0, 0, 0));
                v.push(Insn::new(SUB64_REG, 2, 10, 0, 0));
                v.push(Insn::new(MOV64_REG, 0, 2, 0, 0));
            }
            _ => {
                // probe for the fixed-metadata VM: reads the packet pointer at its own data offset
                let offs = if k == 8 { (0usize, 8usize) } else { (24, 16) };
                probe = Some(offs);
                v.push(Insn::new(LDXDW, 2, 1, offs.0 as i16, 0));
                v.push(Insn::new(LDDW, 3, 0, 0, pkt_addr as u32 as i32));
                v.push(Insn::new(0, 0, 0, 0, (pkt_addr >> 32) as u32 as i32));
                v.push(Insn::new(SUB64_REG, 2, 3, 0, 0)); // 0 when the VM wrote the packet address there
                v.push(Insn::new(ADD64_REG, 0, 2, 0, 0));
            }
        }
        v.push(Insn::new(EXIT, 0, 0, 0, 0));
        pool.push(PoolProg { bytes: encode_prog(&v), id, needs_helper, frame_probe, default_ok, probe, prefix_of: None, tail_probe: false, stack_read: false });
    }
    // a pair of valid programs that share their start address: #12 = lddw; exit; exit and #13 = its
    // first three slots (a different program as far as loading and compiling are concerned)
    {
        let id = next_id(rng, 0);
        let v = vec![Insn::new(LDDW, 0, 0, 0, id as u32 as i32), Insn::new(0, 0, 0, 0, (id >> 32) as u32 as i32), Insn::new(EXIT, 0, 0, 0, 0), Insn::new(EXIT, 0, 0, 0, 0)];
        let bytes = encode_prog(&v);
        let long_idx = pool.len();
        pool.push(PoolProg { bytes: bytes.clone(), id, needs_helper: false, frame_probe: false, default_ok: true, probe: None, prefix_of: None, tail_probe: false, stack_read: false });
        pool.push(PoolProg { bytes: bytes[..24].to_vec(), id, needs_helper: false, frame_probe: false, default_ok: true, probe: None, prefix_of: Some((long_idx, 24)), tail_probe: false, stack_read: false });
    }
    // fixed VM: programs written for offsets (0, 8) that read the internal buffer at +0x10 / +0x18,
    // i.e. inside the buffer an EARLIER load with larger offsets needed
    // (a dead call to a helper nobody registers keeps both compilers from accepting them, so that
    // only the bounds-checking interpreter ever runs them)
    for t in [0x10i16, 0x18] {
        let id = next_id(rng, 0);
        let v = vec![Insn::new(LDXDW, 2, 1, t, 0), Insn::new(LDDW, 0, 0, 0, id as u32 as i32), Insn::new(0, 0, 0, 0, (id >> 32) as u32 as i32), Insn::new(JA, 0, 0, 1, 0), Insn::new(CALL, 0, 0, 0, 0x7777), Insn::new(EXIT, 0, 0, 0, 0)];
        pool.push(PoolProg { bytes: encode_prog(&v), id, needs_helper: false, frame_probe: false, default_ok: true, probe: Some((0, 8)), prefix_of: None, tail_probe: true, stack_read: false });
    }
    // fixed VM, offsets (24, 16): reads the two buffer slots that are NOT pointer slots for these
    // offsets (bytes 0..16) - zero on a fresh VM; an earlier load with offsets (0, 8) followed by an
    // execution left packet addresses there if the buffer was kept
    {
        let id = next_id(rng, 0);
        let v = vec![
            Insn::new(LDXDW, 2, 1, 0, 0),
            Insn::new(LDXDW, 3, 1, 8, 0),
            Insn::new(0x4f, 2, 3, 0, 0),
            Insn::new(LDDW, 0, 0, 0, id as u32 as i32),
            Insn::new(0, 0, 0, 0, (id >> 32) as u32 as i32),
            Insn::new(JEQ_IMM, 2, 0, 1, 0),
            Insn::new(0xa7, 0, 0, 0, 1),
            Insn::new(EXIT, 0, 0, 0, 0),
        ];
        pool.push(PoolProg { bytes: encode_prog(&v), id, needs_helper: false, frame_probe: false, default_ok: true, probe: Some((24, 16)), prefix_of: None, tail_probe: false, stack_read: false });
    }
    // stack writers (fill all 64 slots with an id-dependent pattern) and stack readers (fold four
    // slots they never wrote): what one execution leaves in "its" stack must not reach another
    for k in 0..4 {
        let id = next_id(rng, 0);
        let mut v: Vec<Insn> = Vec::new();
        let reader = k >= 2;
        v.push(Insn::new(LDDW, 0, 0, 0, id as u32 as i32));
        v.push(Insn::new(0, 0, 0, 0, (id >> 32) as u32 as i32));
        if reader {
            for slot in [1i16, 2, 32, 64] {
                v.push(Insn::new(LDXDW, 2, 10, -8 * slot, 0));
                v.push(Insn::new(ADD64_REG, 0, 2, 0, 0)); // (a sum: equal slot values do not cancel)
                v.push(Insn::new(MUL64_IMM, 0, 0, 0, 3));
            }
            // never compiled (compiled engines use the native stack, whose unwritten bytes are anything)
            v.push(Insn::new(JA, 0, 0, 1, 0));
            v.push(Insn::new(CALL, 0, 0, 0, 0x7777));
        } else {
            for slot in 1..=64i16 {
                v.push(Insn::new(STDW, 10, 0, -8 * slot, (id as u32 as i32) | 1));
            }
        }
        v.push(Insn::new(EXIT, 0, 0, 0, 0));
        pool.push(PoolProg { bytes: encode_prog(&v), id, needs_helper: false, frame_probe: false, default_ok: true, probe: None, prefix_of: None, tail_probe: reader, stack_read: reader });
    }
    // one byte string no verifier-independent reading can run: truncated (7 bytes) - only loadable
    // under accept-all; never executed by the generator after such a load
    pool
}

#[derive(Clone, Debug)]
pub enum Op {
    New(Option<usize>),
    SetProgram(usize),
    /// set_program while the installed calculator (if any) panics; the panic is caught
    SetProgramCalcPanics(usize),
    SetVerifier(Ver),
    RegisterHelper(usize),
    SetCalc,
    JitCompile,
    ClCompile,
    Exec,
    ExecJit,
    ExecCl,
}

#[derive(Clone, Debug, PartialEq, Eq)]
pub enum Obs {
    Ok,
    Err,
    Val(u64),
    Panic(String),
    Skipped,
    /// the call unwound with the calculator's deliberate panic (caught)
    CalcPanicked,
    /// the interpreter's result on this VM differs from a freshly built VM with the same program,
    /// verifier, helper and calculator (first = this VM, second = fresh VM)
    Diverged(String),
}

fn accepts(v: Ver, p: &PoolProg) -> bool {
    match v {
        Ver::Default => p.default_ok,
        Ver::AcceptAll => true,
        Ver::RejectAll => false,
        Ver::Custom => p.bytes[4] % 2 == 0,
    }
}

struct Model {
    exists: bool,
    prog: Option<usize>,
    ver: Ver,
    helper: Option<usize>,
    calc: bool,
    /// (program compiled, helper function at compile time, calculator installed at compile time)
    jit: Option<(usize, Option<usize>, bool)>,
    cl: Option<(usize, Option<usize>, bool)>,
    /// program loads since the artefact was compiled
    jit_stale: bool,
    cl_stale: bool,
    /// the very slice the code was compiled from was loaded again: the code may be kept or dropped
    jit_same: bool,
    cl_same: bool,
    offs: (usize, usize),
}

fn value_of(p: &PoolProg, helper: Option<usize>, offs: (usize, usize), kind: Kind, calc: bool) -> Option<Vec<u64>> {
    if p.frame_probe {
        return Some(vec![p.id ^ frame_of(p, calc)]);
    }
    // set of acceptable values (None = execution must fail)
    if p.needs_helper {
        let j = helper?;
        return Some(vec![p.id ^ hlp::value(j as u64, HARGS)]);
    }
    if let Some(po) = p.probe {
        if kind != Kind::Fixed {
            return None; // reads [r1+off]: only generated for the fixed VM
        }
        if po == offs {
            return Some(vec![p.id]);
        }
        return None; // loaded with other offsets: not generated
    }
    Some(vec![p.id])
}

/// the bytes to load for pool program #i (a prefix program is a slice of ANOTHER entry's buffer)
pub fn prog_slice(pool: &[PoolProg], i: usize) -> &[u8] {
    match pool[i].prefix_of {
        Some((j, len)) => &pool[j].bytes[..len],
        None => &pool[i].bytes[..],
    }
}

/// Execute one API history against the real API (in the current process: callers wrap it in a
/// forked child) and append one observation per call to `out`.
pub fn exec_history(kind: &Kind, ops: &[Op], pool: &[PoolProg], pk: (*mut u8, usize), mb: (*mut u8, usize), out: &mut Vec<u8>) {
        let mut vm: Option<Vm> = None;
        let offs_of = |pi: usize| pool[pi].probe.unwrap_or((0, 8));
        // what a fresh VM needs to be in the same state (only what the API calls themselves said)
        let (mut cur, mut cur_helper, mut cur_calc, mut cur_ver): (Option<usize>, Option<usize>, bool, Ver) = (None, None, false, Ver::Default);
        let mut nexec = 0u32;
        let ver_fn = |v: Ver| -> rbpf::Verifier {
            match v {
                Ver::Default => v_default_like,
                Ver::AcceptAll => v_accept_all,
                Ver::RejectAll => v_reject_all,
                Ver::Custom => v_custom,
            }
        };
        for op in ops {
            let o: Obs = match sys::catch(|| -> Obs {
                match op {
                    Op::New(p) => {
                        let offs = p.map(offs_of).unwrap_or((0, 8));
                        match Vm::new(*kind, p.map(|i| prog_slice(pool, i)), offs) {
                            Ok(v) => {
                                vm = Some(v);
                                (cur, cur_helper, cur_calc, cur_ver) = (*p, None, false, Ver::Default);
                                Obs::Ok
                            }
                            Err(_) => Obs::Err,
                        }
                    }
                    _ if vm.is_none() => Obs::Skipped,
                    Op::SetProgram(p) => match vm.as_mut().unwrap().set_program(prog_slice(pool, *p), offs_of(*p)) {
                        Ok(()) => {
                            cur = Some(*p);
                            Obs::Ok
                        }
                        Err(_) => Obs::Err,
                    },
                    Op::SetProgramCalcPanics(p) => {
                        CALC_PANICS.with(|c| c.set(true));
                        let r = std::panic::catch_unwind(std::panic::AssertUnwindSafe(|| vm.as_mut().unwrap().set_program(prog_slice(pool, *p), offs_of(*p))));
                        CALC_PANICS.with(|c| c.set(false));
                        match r {
                            Ok(Ok(())) => {
                                cur = Some(*p);
                                Obs::Ok
                            }
                            Ok(Err(_)) => Obs::Err,
                            Err(_) => Obs::CalcPanicked,
                        }
                    }
                    Op::SetVerifier(v) => {
                        let f: rbpf::Verifier = match v {
                            Ver::Default => v_default_like,
                            Ver::AcceptAll => v_accept_all,
                            Ver::RejectAll => v_reject_all,
                            Ver::Custom => v_custom,
                        };
                        match vm.as_mut().unwrap().set_verifier(f) {
                            Ok(()) => {
                                cur_ver = *v;
                                Obs::Ok
                            }
                            Err(_) => Obs::Err,
                        }
                    }
                    Op::RegisterHelper(j) => match vm.as_mut().unwrap().register_helper(HELPER_ID, hlp::PLAIN[*j]) {
                        Ok(()) => {
                            cur_helper = Some(*j);
                            Obs::Ok
                        }
                        Err(_) => Obs::Err,
                    },
                    Op::SetCalc => match vm.as_mut().unwrap().set_calc(calc_by_prog, Box::new(())) {
                        Ok(()) => {
                            cur_calc = true;
                            Obs::Ok
                        }
                        Err(_) => Obs::Err,
                    },
                    Op::JitCompile => {
                        #[cfg(not(any(feature = "std", feature = "stdlite")))]
                        {
                            let _ = vm.as_mut().unwrap().set_jit_exec_memory(crate::exec::exec_memory(1 << 16));
                        }
                        match vm.as_mut().unwrap().jit_compile() {
                            Ok(()) => Obs::Ok,
                            Err(_) => Obs::Err,
                        }
                    }
                    Op::JitCompile if false => match vm.as_mut().unwrap().jit_compile() {
                        Ok(()) => Obs::Ok,
                        Err(_) => Obs::Err,
                    },
                    #[cfg(feature = "std")]
                    Op::ClCompile => match vm.as_mut().unwrap().cl_compile() {
                        Ok(()) => Obs::Ok,
                        Err(_) => Obs::Err,
                    },
                    Op::Exec => {
                        let here = vm.as_mut().unwrap().exec(pk, mb);
                        // "the result depends only on the loaded program, the registered helpers and
                        // the buffers passed in": a VM built from scratch into the same state must agree
                        if let Some(ci) = cur {
                            let offs = offs_of(ci);
                            // built and run on ANOTHER thread: per-thread state of the crate (if
                            // it ever has any) is fresh there as well
                            struct SendPtrs((*mut u8, usize), (*mut u8, usize));
                            unsafe impl Send for SendPtrs {}
                            let ptrs = SendPtrs(pk, mb);
                            let run_fresh = move || -> Result<u64, String> {
                                let ptrs = ptrs;
                                let mut f = Vm::new(*kind, None, offs)?;
                                f.set_verifier(ver_fn(cur_ver))?;
                                f.set_program(prog_slice(pool, ci), offs)?;
                                if let Some(j) = cur_helper {
                                    f.register_helper(HELPER_ID, hlp::PLAIN[j])?;
                                }
                                if cur_calc {
                                    f.set_calc(calc_by_prog, Box::new(()))?;
                                }
                                f.exec(ptrs.0, ptrs.1)
                            };
                            nexec += 1;
                            let threaded = !cfg!(miri) && (pool[ci].stack_read || nexec % 4 == 0);
                            let fresh = if threaded { std::thread::scope(|sc| sc.spawn(run_fresh).join()).unwrap_or_else(|_| Err("fresh VM panicked".into())) } else { run_fresh() };
                            let same = match (&here, &fresh) {
                                (Ok(a), Ok(b)) => a == b,
                                (Err(_), Err(_)) => true,
                                _ => false,
                            };
                            if !same {
                                return Obs::Diverged(format!("this VM: {:x?}; fresh VM in the same state: {:x?}", here, fresh));
                            }
                        }
                        match here {
                            Ok(v) => Obs::Val(v),
                            Err(_) => Obs::Err,
                        }
                    }
                    Op::ExecJit => match unsafe { vm.as_mut().unwrap().exec_jit(pk, mb) } {
                        Ok(v) => Obs::Val(v),
                        Err(_) => Obs::Err,
                    },
                    #[cfg(feature = "std")]
                    Op::ExecCl => match vm.as_mut().unwrap().exec_cl(pk, mb) {
                        Ok(v) => Obs::Val(v),
                        Err(_) => Obs::Err,
                    },
                    #[cfg(not(feature = "std"))]
                    _ => Obs::Skipped,
                }
            }) {
                Ok(o) => o,
                Err(p) => Obs::Panic(p),
            };
            match o {
                Obs::Ok => out.push(0),
                Obs::Err => out.push(1),
                Obs::Val(v) => {
                    out.push(2);
                    out.extend_from_slice(&v.to_le_bytes());
                }
                Obs::Panic(m) => {
                    out.push(3);
                    let b = m.as_bytes();
                    out.push(b.len().min(200) as u8);
                    out.extend_from_slice(&b[..b.len().min(200)]);
                    return;
                }
                Obs::Skipped => out.push(4),
                Obs::CalcPanicked => out.push(6),
                Obs::Diverged(m) => {
                    out.push(5);
                    let b = m.as_bytes();
                    out.push(b.len().min(200) as u8);
                    out.extend_from_slice(&b[..b.len().min(200)]);
                    return;
                }
            }
        }
}

pub fn run(a: &Args, rep: &mut Report) {
    let mut rng = Rng::derive(a.seed, a.shard, 10);
    let q = a.tier == "quick";
    let n = ((if q { 120_000.0 } else { 8_000_000.0 }) * a.scale) as u64 / a.nshards;
    let pkt = GuardBuf::new(64, true, false);
    pkt.fill(&[0x42u8; 64]);
    let pool = mk_pool(&mut rng, pkt.addr());
    let has_cl = cfg!(feature = "std");
    let mut histories: Vec<(Kind, Vec<Op>)> = Vec::new();
    let mut long_histories = 0u64;
    for _ in 0..n {
        let kind = crate::engines::KINDS[rng.below(4) as usize];
        let len = rng.range(1, 40) as usize;
        let mut ops: Vec<Op> = Vec::new();
        let progs_for_kind: Vec<usize> = (0..pool.len()).filter(|i| pool[*i].probe.is_none() || kind == Kind::Fixed).collect();
        ops.push(Op::New(if rng.chance(1, 2) { None } else { Some(*rng.pick(&progs_for_kind)) }));
        for _ in 1..len {
            ops.push(match rng.below(20) {
                0 => Op::New(if rng.chance(1, 3) { None } else { Some(*rng.pick(&progs_for_kind)) }),
                1..=3 => Op::SetProgram(*rng.pick(&progs_for_kind)),
                4 => if rng.chance(1, 2) { Op::SetProgramCalcPanics(*rng.pick(&progs_for_kind)) } else { Op::SetProgram(*rng.pick(&progs_for_kind)) },
                5 | 6 => Op::SetVerifier(*rng.pick(&[Ver::Default, Ver::AcceptAll, Ver::RejectAll, Ver::Custom])),
                7 => Op::RegisterHelper(rng.below(8) as usize),
                8 => Op::SetCalc,
                9 | 10 => Op::JitCompile,
                11 | 12 if has_cl => Op::ClCompile,
                13..=15 => Op::Exec,
                16 | 17 => Op::ExecJit,
                18 | 19 if has_cl => Op::ExecCl,
                _ => Op::Exec,
            });
        }
        // accumulation: one history in 300 goes on with bursts of hundreds of identical calls (loads,
        // executions, registrations, compilations, refused loads) followed by the observations that
        // would show a counter, generation stamp or table that wrapped, saturated or filled up
        if !cfg!(miri) && rng.chance(1, 300) {
            let pick_n = |rng: &mut Rng| -> usize {
                if !q && rng.chance(1, 10) { *rng.pick(&[65_535usize, 65_536, 65_537]) } else { *rng.pick(&[254usize, 255, 256, 257, 258, 300, 510, 511, 512, 513, 1024, 1025, 1100]) }
            };
            for _ in 0..rng.range(1, 4) {
                let n = pick_n(&mut rng);
                match rng.below(6) {
                    0 => {
                        ops.push(if rng.chance(1, 2) { Op::JitCompile } else if has_cl { Op::ClCompile } else { Op::JitCompile });
                        let ps: Vec<usize> = (0..3).map(|_| *rng.pick(&progs_for_kind)).collect();
                        for k in 0..n {
                            ops.push(Op::SetProgram(ps[k % ps.len()]));
                        }
                    }
                    1 => {
                        for _ in 0..n.min(1100) {
                            ops.push(Op::Exec);
                        }
                        ops.push(Op::SetProgram(*rng.pick(&progs_for_kind)));
                    }
                    2 => {
                        for k in 0..n.min(1100) {
                            ops.push(if k % 3 == 2 { Op::SetCalc } else { Op::RegisterHelper(rng.below(8) as usize) });
                        }
                        ops.push(Op::JitCompile);
                    }
                    3 => {
                        for _ in 0..n.min(600) {
                            ops.push(Op::JitCompile);
                        }
                    }
                    4 => {
                        ops.push(Op::SetVerifier(Ver::Default));
                        for _ in 0..n.min(1100) {
                            ops.push(Op::SetProgram(*rng.pick(&progs_for_kind)));
                            ops.push(Op::ExecJit);
                        }
                    }
                    _ => {
                        for _ in 0..n.min(1100) {
                            ops.push(Op::ExecJit);
                        }
                        ops.push(Op::SetProgram(*rng.pick(&progs_for_kind)));
                    }
                }
                ops.push(Op::ExecJit);
                if has_cl {
                    ops.push(Op::ExecCl);
                }
                ops.push(Op::Exec);
                ops.push(Op::JitCompile);
                ops.push(Op::ExecJit);
                ops.push(Op::Exec);
            }
            long_histories += 1;
        }
        histories.push((kind, ops));
    }
    rep.add("long_histories_with_bursts_of_hundreds_of_calls", long_histories);
    let pk = (pkt.addr() as *mut u8, pkt.len());
    let mbuff = GuardBuf::new(32, true, false);
    let ends = sys::run_batch(histories.len(), 120, 60, |i, out| {
        let (kind, ops) = &histories[i];
        let mb = if *kind == Kind::Mbuff { (mbuff.addr() as *mut u8, mbuff.len()) } else { (std::ptr::null_mut(), 0) };
        exec_history(kind, ops, &pool, pk, mb, out);
    });
    // ---- the same histories on 8 threads at once, each on its own VM: identical observations ----
    if !cfg!(miri) && crate::mon_par::par_mult() > 0 {
        let sample: Vec<&(Kind, Vec<Op>)> = histories.iter().take(if q { 300 } else { 3000 }).collect();
        let (pka, pkl, mba, mbl) = (pkt.addr() as usize, pkt.len(), mbuff.addr() as usize, mbuff.len());
        let pool_ref = &pool;
        let ends_par = sys::run_batch(1, 600, 600, |_i, out| {
            let f = |h: &&(Kind, Vec<Op>)| -> Vec<u8> {
                let (kind, ops) = &**h;
                let mut o = Vec::new();
                let mb = if *kind == Kind::Mbuff { (mba as *mut u8, mbl) } else { (std::ptr::null_mut(), 0) };
                exec_history(kind, ops, pool_ref, (pka as *mut u8, pkl), mb, &mut o);
                o
            };
            let (execs, bad) = crate::mon_par::par_same(&sample, f, 2);
            out.extend_from_slice(&execs.to_le_bytes());
            for (i, d) in bad.iter().take(5) {
                out.extend_from_slice(format!("history #{i} {:?} {:?}: {}\n", sample[*i].0, sample[*i].1, d).as_bytes());
            }
        });
        rep.set("concurrent_workloads", "api-histories");
        match &ends_par[0] {
            CaseEnd::Done(b) if b.len() >= 8 => {
                rep.add("concurrent_evaluations", u64::from_le_bytes(b[0..8].try_into().unwrap()));
                let msg = String::from_utf8_lossy(&b[8..]).to_string();
                if let Some(first) = msg.lines().next() {
                    rep.violation("C10:concurrent:history-differs-from-sequential", format!("8 threads, each running API histories on its own VM: {}", first.chars().take(700).collect::<String>()), json!({"kind": "concurrent-session", "what": "api-histories", "deviations": msg.lines().take(5).map(|l| l.chars().take(700).collect::<String>()).collect::<Vec<_>>()}));
                }
            }
            CaseEnd::Died(sg, _) => rep.violation(&format!("C10:concurrent:signal-{}", sys::signame(*sg)), format!("8 threads running API histories: killed by {}", sys::signame(*sg)), json!({"kind": "concurrent-session", "what": "api-histories"})),
            CaseEnd::Done(_) => rep.inconclusive("concurrent histories: short record".into()),
            CaseEnd::CpuTimeout => rep.inconclusive("concurrent histories: cpu limit".into()),
            CaseEnd::Inconclusive(x) => rep.inconclusive(format!("concurrent histories: {x}")),
        }
    }
    // ---- offline: compare each recorded history with the model ----
    for ((kind, ops), e) in histories.iter().zip(ends.iter()) {
        rep.case(Some(crate::util::fnv(format!("{kind:?}{ops:?}").as_bytes())));
        rep.add("api_calls", ops.len() as u64);
        let w = |upto: usize| json!({"kind": "api-history", "vm": kind.name(), "ops": ops.iter().take(upto + 1).map(|o| format!("{o:?}")).collect::<Vec<_>>(),
            "pool": pool.iter().map(|p| json!({"id": format!("{:#x}", p.id), "needs_helper": p.needs_helper, "frame_probe": p.frame_probe, "default_ok": p.default_ok, "probe": format!("{:?}", p.probe), "prog": hex(&p.bytes)})).collect::<Vec<_>>()});
        let b = match e {
            CaseEnd::Done(b) => b,
            CaseEnd::Died(s, _) => {
                rep.violation(&format!("C10:{}:signal-{}", kind.name(), sys::signame(*s)), format!("an API history killed the process with {}", sys::signame(*s)), w(ops.len()));
                continue;
            }
            CaseEnd::CpuTimeout => {
                rep.violation("C10:diverged", "history did not finish".into(), w(ops.len()));
                continue;
            }
            CaseEnd::Inconclusive(s) => {
                rep.inconclusive(s.clone());
                continue;
            }
        };
        let mut m = Model { exists: false, prog: None, ver: Ver::Default, helper: None, calc: false, jit: None, cl: None, jit_stale: false, cl_stale: false, jit_same: false, cl_same: false, offs: (0, 8) };
        let mut pos = 0usize;
        let mut last_exec: Option<(u64, usize)> = None; // (value, model epoch) for history independence
        let mut first_seen: std::collections::HashMap<usize, u64> = std::collections::HashMap::new();
        let mut epoch = 0usize;
        for (oi, op) in ops.iter().enumerate() {
            if pos >= b.len() {
                break;
            }
            let obs = match b[pos] {
                0 => {
                    pos += 1;
                    Obs::Ok
                }
                1 => {
                    pos += 1;
                    Obs::Err
                }
                2 => {
                    let v = u64::from_le_bytes(b[pos + 1..pos + 9].try_into().unwrap());
                    pos += 9;
                    Obs::Val(v)
                }
                3 => {
                    let l = b[pos + 1] as usize;
                    let msg = String::from_utf8_lossy(&b[pos + 2..pos + 2 + l]).to_string();
                    pos += 2 + l;
                    Obs::Panic(msg)
                }
                5 => {
                    let l = b[pos + 1] as usize;
                    let msg = String::from_utf8_lossy(&b[pos + 2..pos + 2 + l]).to_string();
                    pos += 2 + l;
                    Obs::Diverged(msg)
                }
                6 => {
                    pos += 1;
                    Obs::CalcPanicked
                }
                _ => {
                    pos += 1;
                    Obs::Skipped
                }
            };
            rep.set("ops_seen", format!("{}:{}", kind.name(), format!("{op:?}").split('(').next().unwrap_or("")));
            let opname = format!("{op:?}").split('(').next().unwrap_or("").to_string();
            let mut fail = |rep: &mut Report, what: &str, detail: String| {
                rep.violation(&format!("C10:{}:{opname}:{what}", kind.name()), format!("step {oi} {op:?}: {detail}"), w(oi));
            };
            if let Obs::Panic(msg) = &obs {
                fail(rep, "panic", format!("panicked: {msg}"));
                break;
            }
            if let Obs::Diverged(msg) = &obs {
                fail(rep, "differs-from-fresh-vm", format!("the result depends on the VM's history: {msg}"));
                break;
            }
            if obs == Obs::Skipped {
                continue;
            }
            rep.count(if matches!(op, Op::Exec) { "interpreter_runs_compared_with_fresh_vm" } else { "other_calls" });
            let mut stop = false;
            match op {
                Op::New(p) => {
                    let ok = p.map(|i| pool[i].default_ok).unwrap_or(true);
                    match (&obs, ok) {
                        (Obs::Ok, true) => {
                            m = Model { exists: true, prog: *p, ver: Ver::Default, helper: None, calc: false, jit: None, cl: None, jit_stale: false, cl_stale: false, jit_same: false, cl_same: false, offs: p.map(|i| pool[i].probe.unwrap_or((0, 8))).unwrap_or((0, 8)) };
                            epoch += 1;
                        }
                        (Obs::Err, false) => { /* the previous VM object (if any) stays in use */ }
                        (o, _) => {
                            fail(rep, "verdict", format!("new() returned {o:?}, default verifier {} the program", if ok { "accepts" } else { "refuses" }));
                            stop = true;
                        }
                    }
                }
                Op::SetProgramCalcPanics(p) if m.calc => {
                    // the verifier runs first: a refused program is an error; an accepted one reaches
                    // the calculator, whose panic unwinds out of the call. Either way the call did not
                    // load anything: the VM must behave exactly as before (the model is not updated)
                    let ok = accepts(m.ver, &pool[*p]);
                    match (&obs, ok) {
                        (Obs::CalcPanicked, true) | (Obs::Err, false) | (Obs::CalcPanicked, false) => {}
                        (o, _) => {
                            fail(rep, "verdict", format!("set_program with a panicking calculator returned {o:?} (verifier {} the program)", if ok { "accepts" } else { "refuses" }));
                            stop = true;
                        }
                    }
                }
                Op::SetProgram(p) | Op::SetProgramCalcPanics(p) => {
                    let ok = accepts(m.ver, &pool[*p]);
                    match (&obs, ok) {
                        (Obs::Ok, true) => {
                            m.prog = Some(*p);
                            m.offs = pool[*p].probe.unwrap_or((0, 8));
                            // loading another slice: nothing has been compiled for it. Loading the
                            // identical slice again (same address, same length, bytes cannot have
                            // changed under a shared borrow): keeping the code is as good as dropping it.
                            m.jit_same = m.jit.is_some_and(|(cp, _, _)| cp == *p) && !m.jit_stale;
                            m.cl_same = m.cl.is_some_and(|(cp, _, _)| cp == *p) && !m.cl_stale;
                            m.jit_stale = m.jit.is_some() && !m.jit_same;
                            m.cl_stale = m.cl.is_some() && !m.cl_same;
                            epoch += 1;
                        }
                        (Obs::Err, false) => {}
                        (o, _) => {
                            fail(rep, "verdict", format!("set_program returned {o:?} but the verifier in force ({:?}) {} this program", m.ver, if ok { "accepts" } else { "refuses" }));
                            stop = true;
                        }
                    }
                }
                Op::SetVerifier(v) => {
                    let ok = m.prog.map(|i| accepts(*v, &pool[i])).unwrap_or(true);
                    match (&obs, ok) {
                        (Obs::Ok, true) => m.ver = *v,
                        (Obs::Err, false) => {}
                        (o, _) => {
                            fail(rep, "verdict", format!("set_verifier({v:?}) returned {o:?}; loaded program would be {}", if ok { "accepted" } else { "refused" }));
                            stop = true;
                        }
                    }
                }
                Op::RegisterHelper(j) => {
                    m.helper = Some(*j);
                    epoch += 1;
                    if obs != Obs::Ok {
                        fail(rep, "verdict", format!("register_helper returned {obs:?}"));
                    }
                }
                Op::SetCalc => {
                    m.calc = true;
                    epoch += 1;
                    if obs != Obs::Ok {
                        fail(rep, "verdict", format!("set_stack_usage_calculator returned {obs:?}"));
                    }
                }
                Op::JitCompile | Op::ClCompile => {
                    let ok = match m.prog {
                        None => false,
                        // (Cranelift refuses programs with eBPF-to-eBPF calls)
                        Some(i) => (!pool[i].needs_helper || m.helper.is_some()) && !(matches!(op, Op::ClCompile) && pool[i].frame_probe) && !pool[i].tail_probe,
                    };
                    match (&obs, ok) {
                        (Obs::Ok, true) => {
                            if matches!(op, Op::JitCompile) {
                                m.jit = Some((m.prog.unwrap(), m.helper, m.calc));
                                m.jit_stale = false;
                                m.jit_same = false;
                            } else {
                                m.cl = Some((m.prog.unwrap(), m.helper, m.calc));
                                m.cl_stale = false;
                                m.cl_same = false;
                            }
                        }
                        (Obs::Err, false) => {}
                        (o, _) => {
                            fail(rep, "verdict", format!("compile returned {o:?}; model: {}", if ok { "must succeed" } else { "must fail (no program / helper not registered)" }));
                            stop = true;
                        }
                    }
                }
                Op::Exec => {
                    let want = m.prog.and_then(|i| value_of(&pool[i], m.helper, m.offs, *kind, m.calc));
                    let tail = m.prog.is_some_and(|i| pool[i].tail_probe);
                    if let Some(i) = m.prog.filter(|i| pool[*i].stack_read) {
                        // no predicted value: all executions of this program in the history must agree
                        match &obs {
                            Obs::Val(v) => {
                                let first = *first_seen.entry(i).or_insert(*v);
                                if first != *v {
                                    fail(rep, "unwritten-stack-differs-between-executions", format!("a program that folds stack slots it never wrote returned {first:#x} earlier in this history and {v:#x} now: an earlier execution's stack contents reached it"));
                                    stop = true;
                                }
                            }
                            o => {
                                fail(rep, "verdict", format!("execute returned {o:?} for a program that only reads its own stack"));
                                stop = true;
                            }
                        }
                        if stop {
                            break;
                        }
                        continue;
                    }
                    match (&obs, &want) {
                        (Obs::Err, None) => {}
                        // decided by the comparison with a fresh VM made in the child
                        (Obs::Err, _) if tail => {}
                        (Obs::Val(v), Some(ws)) if ws.contains(v) => {
                            if let Some((lv, le)) = last_exec {
                                if le == epoch && lv != *v {
                                    fail(rep, "history-dependence", format!("same state, different results: {lv:#x} then {v:#x}"));
                                }
                            }
                            last_exec = Some((*v, epoch));
                        }
                        (Obs::Val(v), _) => {
                            let whose = pool.iter().position(|p| p.id == *v || p.id ^ v < 1 << 20);
                            let _ = frame_of;
                            fail(rep, if whose.is_some() && whose != m.prog { "stale-program-ran" } else { "wrong-value" }, format!("execute returned {v:#x}; loaded program #{:?} should give {:x?} (value belongs to pool program #{whose:?})", m.prog, want));
                            stop = true;
                        }
                        (o, _) => {
                            fail(rep, "verdict", format!("execute returned {o:?}, model expects {:x?}", want));
                            stop = true;
                        }
                    }
                }
                Op::ExecJit | Op::ExecCl => {
                    let (art, stale, same) = if matches!(op, Op::ExecJit) { (m.jit, m.jit_stale, m.jit_same) } else { (m.cl, m.cl_stale, m.cl_same) };
                    match art {
                        None => {
                            if obs != Obs::Err {
                                fail(rep, "never-compiled-ran", format!("executing compiled code that was never compiled returned {obs:?}"));
                                stop = true;
                            }
                        }
                        Some((_cp, ch, ccalc)) => {
                            // the program that runs must be the one most recently loaded; after a
                            // re-load, either its value or the "not compiled" error is acceptable
                            let cur = m.prog.unwrap();
                            let mut ok_vals: Vec<u64> = Vec::new();
                            for h in [ch, m.helper] {
                                for cc in [ccalc, m.calc] {
                                    if let Some(v) = value_of(&pool[cur], h, m.offs, *kind, cc) {
                                        ok_vals.extend(v);
                                    }
                                }
                            }
                            match &obs {
                                Obs::Err if stale || same => {}
                                // code compiled before the last successful load belongs to another
                                // program: the newly loaded one was never compiled => error required
                                Obs::Val(v) if stale => {
                                    fail(rep, "compiled-code-of-previous-load-ran", format!("a program was loaded after the last compilation, yet executing compiled code returned {v:#x} instead of the 'not compiled' error"));
                                    stop = true;
                                }
                                Obs::Val(v) if ok_vals.contains(v) => {}
                                Obs::Val(v) => {
                                    let whose = pool.iter().position(|p| p.id == *v || (p.needs_helper && (0..8).any(|j| p.id ^ hlp::value(j, HARGS) == *v)));
                                    fail(rep, if whose.is_some() && whose != Some(cur) { "stale-compiled-code-ran" } else { "wrong-value" }, format!("compiled code returned {v:#x}; the loaded program #{cur} should give {:x?} (value belongs to pool program #{whose:?})", ok_vals));
                                    stop = true;
                                }
                                o => {
                                    fail(rep, "verdict", format!("compiled execution returned {o:?}; expected {:x?}", ok_vals));
                                    stop = true;
                                }
                            }
                        }
                    }
                }
            }
            let _ = m.exists;
            if stop {
                break;
            }
        }
        if rep.want_sample() && rep.get("evaluations") % 9973 == 5 {
            rep.sample(w(ops.len()));
        }
    }
}
