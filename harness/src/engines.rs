//! Uniform wrapper over the four VM kinds and three engines of rbpf's public API.

use rbpf::{EbpfVmFixedMbuff, EbpfVmMbuff, EbpfVmNoData, EbpfVmRaw};
use std::any::Any;
use std::ops::Range;

pub type Helper = fn(u64, u64, u64, u64, u64) -> u64;
pub type Calc = fn(&[u8], usize, &mut dyn Any) -> u16;

#[derive(Clone, Copy, PartialEq, Eq, Debug, Hash, PartialOrd, Ord)]
pub enum Kind {
    Raw,
    Mbuff,
    Fixed,
    NoData,
}

pub const KINDS: [Kind; 4] = [Kind::Raw, Kind::Mbuff, Kind::Fixed, Kind::NoData];

impl Kind {
    pub fn name(self) -> &'static str {
        match self {
            Kind::Raw => "raw",
            Kind::Mbuff => "mbuff",
            Kind::Fixed => "fixed",
            Kind::NoData => "nodata",
        }
    }
    pub fn from_name(s: &str) -> Kind {
        match s {
            "raw" => Kind::Raw,
            "mbuff" => Kind::Mbuff,
            "fixed" => Kind::Fixed,
            _ => Kind::NoData,
        }
    }
}

pub enum Vm<'a> {
    Raw(EbpfVmRaw<'a>),
    Mbuff(EbpfVmMbuff<'a>),
    Fixed(EbpfVmFixedMbuff<'a>),
    NoData(EbpfVmNoData<'a>),
}

#[cfg(feature = "std")]
pub fn es<E: std::fmt::Display>(e: E) -> String {
    format!("{e}")
}
#[cfg(not(any(feature = "std", feature = "stdlite")))]
pub fn es<E: std::fmt::Debug>(e: E) -> String {
    format!("{e:?}")
}
#[cfg(all(feature = "stdlite", not(feature = "std")))]
pub fn es<E: std::fmt::Display>(e: E) -> String {
    format!("{e}")
}

fn view<'x>(p: *mut u8, len: usize) -> &'x mut [u8] {
    if len == 0 { &mut [] } else { unsafe { std::slice::from_raw_parts_mut(p, len) } }
}

macro_rules! all {
    ($self:expr, $v:ident => $e:expr) => {
        match $self {
            Vm::Raw($v) => $e,
            Vm::Mbuff($v) => $e,
            Vm::Fixed($v) => $e,
            Vm::NoData($v) => $e,
        }
    };
}

impl<'a> Vm<'a> {
    pub fn new(kind: Kind, prog: Option<&'a [u8]>, offs: (usize, usize)) -> Result<Vm<'a>, String> {
        Ok(match kind {
            Kind::Raw => Vm::Raw(EbpfVmRaw::new(prog).map_err(es)?),
            Kind::Mbuff => Vm::Mbuff(EbpfVmMbuff::new(prog).map_err(es)?),
            Kind::Fixed => Vm::Fixed(EbpfVmFixedMbuff::new(prog, offs.0, offs.1).map_err(es)?),
            Kind::NoData => Vm::NoData(EbpfVmNoData::new(prog).map_err(es)?),
        })
    }
    pub fn kind(&self) -> Kind {
        match self {
            Vm::Raw(_) => Kind::Raw,
            Vm::Mbuff(_) => Kind::Mbuff,
            Vm::Fixed(_) => Kind::Fixed,
            Vm::NoData(_) => Kind::NoData,
        }
    }
    pub fn set_program(&mut self, prog: &'a [u8], offs: (usize, usize)) -> Result<(), String> {
        match self {
            Vm::Raw(v) => v.set_program(prog).map_err(es),
            Vm::Mbuff(v) => v.set_program(prog).map_err(es),
            Vm::Fixed(v) => v.set_program(prog, offs.0, offs.1).map_err(es),
            Vm::NoData(v) => v.set_program(prog).map_err(es),
        }
    }
    pub fn set_verifier(&mut self, f: rbpf::Verifier) -> Result<(), String> {
        all!(self, v => v.set_verifier(f).map_err(es))
    }
    pub fn register_helper(&mut self, id: u32, f: Helper) -> Result<(), String> {
        all!(self, v => v.register_helper(id, f).map_err(es))
    }
    pub fn register_allowed(&mut self, r: Range<u64>) {
        all!(self, v => v.register_allowed_memory(r))
    }
    pub fn set_calc(&mut self, c: Calc, data: Box<dyn Any>) -> Result<(), String> {
        all!(self, v => v.set_stack_usage_calculator(c, data).map_err(es))
    }

    /// Interpreter. `mem`/`mbuff` are raw (ptr,len) so the same buffers can be reused across calls.
    pub fn exec(&mut self, mem: (*mut u8, usize), mbuff: (*mut u8, usize)) -> Result<u64, String> {
        match self {
            Vm::Raw(v) => v.execute_program(view(mem.0, mem.1)).map_err(es),
            Vm::Mbuff(v) => v.execute_program(view(mem.0, mem.1), view(mbuff.0, mbuff.1)).map_err(es),
            Vm::Fixed(v) => v.execute_program(view(mem.0, mem.1)).map_err(es),
            Vm::NoData(v) => v.execute_program().map_err(es),
        }
    }

    pub fn jit_compile(&mut self) -> Result<(), String> {
        all!(self, v => v.jit_compile().map_err(es))
    }

    /// # Safety: runs emitted native code.
    pub unsafe fn exec_jit(&mut self, mem: (*mut u8, usize), mbuff: (*mut u8, usize)) -> Result<u64, String> {
        unsafe {
            match self {
                Vm::Raw(v) => v.execute_program_jit(view(mem.0, mem.1)).map_err(es),
                Vm::Mbuff(v) => v.execute_program_jit(view(mem.0, mem.1), view(mbuff.0, mbuff.1)).map_err(es),
                Vm::Fixed(v) => v.execute_program_jit(view(mem.0, mem.1)).map_err(es),
                Vm::NoData(v) => v.execute_program_jit().map_err(es),
            }
        }
    }

    #[cfg(feature = "std")]
    pub fn cl_compile(&mut self) -> Result<(), String> {
        all!(self, v => v.cranelift_compile().map_err(es))
    }

    #[cfg(feature = "std")]
    pub fn exec_cl(&mut self, mem: (*mut u8, usize), mbuff: (*mut u8, usize)) -> Result<u64, String> {
        match self {
            Vm::Raw(v) => v.execute_program_cranelift(view(mem.0, mem.1)).map_err(es),
            Vm::Mbuff(v) => v.execute_program_cranelift(view(mem.0, mem.1), view(mbuff.0, mbuff.1)).map_err(es),
            Vm::Fixed(v) => v.execute_program_cranelift(view(mem.0, mem.1)).map_err(es),
            Vm::NoData(v) => v.execute_program_cranelift().map_err(es),
        }
    }

    #[cfg(not(any(feature = "std", feature = "stdlite")))]
    pub fn set_jit_exec_memory(&mut self, m: &'a mut [u8]) -> Result<(), String> {
        all!(self, v => v.set_jit_exec_memory(m).map_err(es))
    }
}

#[derive(Clone, Copy, PartialEq, Eq, Debug, Hash, PartialOrd, Ord)]
pub enum Engine {
    Interp,
    Jit,
    Cranelift,
}

impl Engine {
    pub fn name(self) -> &'static str {
        match self {
            Engine::Interp => "interp",
            Engine::Jit => "jit",
            Engine::Cranelift => "cranelift",
        }
    }
}

/// Hook access (feature verif-hooks of rbpf).
pub mod hooks {
    use rbpf::verif_hooks as h;
    use std::sync::atomic::Ordering::Relaxed;
    pub fn reset(budget: u64, trace: bool) {
        h::reset(budget, trace);
    }
    pub fn unlimited() {
        h::reset(u64::MAX, false);
    }
    pub fn count() -> u64 {
        h::COUNT.load(Relaxed)
    }
    pub fn pc_hash() -> u64 {
        h::PC_HASH.load(Relaxed)
    }
    pub fn max_pc() -> u64 {
        h::MAX_PC.load(Relaxed)
    }
    pub fn stack_addr() -> u64 {
        h::STACK_ADDR.load(Relaxed)
    }
    /// run `f` (which may execute other programs) without disturbing what the hooks have recorded
    /// about the execution in progress: budget, count, pc fold, trace buffer and buffer addresses
    pub fn suspended<R>(f: impl FnOnce() -> R) -> R {
        let saved = (h::BUDGET.load(Relaxed), h::COUNT.load(Relaxed), h::PC_HASH.load(Relaxed), h::MAX_PC.load(Relaxed), h::TRACE_ON.load(Relaxed), save());
        h::TRACE_ON.store(false, Relaxed);
        h::BUDGET.store(u64::MAX, Relaxed);
        let r = f();
        h::BUDGET.store(saved.0, Relaxed);
        h::COUNT.store(saved.1, Relaxed);
        h::PC_HASH.store(saved.2, Relaxed);
        h::MAX_PC.store(saved.3, Relaxed);
        h::TRACE_ON.store(saved.4, Relaxed);
        restore(saved.5);
        r
    }
    /// the addresses the last `on_start` recorded (a nested execution inside a helper overwrites them)
    pub fn save() -> [u64; 5] {
        [h::STACK_ADDR.load(Relaxed), h::MEM_ADDR.load(Relaxed), h::MEM_LEN.load(Relaxed), h::MBUFF_ADDR.load(Relaxed), h::MBUFF_LEN.load(Relaxed)]
    }
    pub fn restore(s: [u64; 5]) {
        h::STACK_ADDR.store(s[0], Relaxed);
        h::MEM_ADDR.store(s[1], Relaxed);
        h::MEM_LEN.store(s[2], Relaxed);
        h::MBUFF_ADDR.store(s[3], Relaxed);
        h::MBUFF_LEN.store(s[4], Relaxed);
    }
    pub fn mbuff() -> (u64, u64) {
        (h::MBUFF_ADDR.load(Relaxed), h::MBUFF_LEN.load(Relaxed))
    }
    pub fn mem() -> (u64, u64) {
        (h::MEM_ADDR.load(Relaxed), h::MEM_LEN.load(Relaxed))
    }
    pub fn set_trace_buffer(buf: &mut [u32]) {
        unsafe { h::set_trace_buffer(buf.as_mut_ptr(), buf.len()) }
    }
    pub fn clear_trace_buffer() {
        unsafe { h::set_trace_buffer(std::ptr::null_mut(), 0) }
    }
}
