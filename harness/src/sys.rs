//! OS-level machinery: guard-paged buffers, forked children with shared result areas, CPU-time
//! limits, panic capture.

use std::cell::RefCell;
use std::panic::{self, AssertUnwindSafe};

pub const PAGE: usize = 4096;

/// A buffer placed against PROT_NONE guard pages.
/// Layout: [guard page][canary page][data pages][canary-free][guard page]; the data either ends
/// exactly at the trailing guard (`end_aligned`) or starts right after the leading guard.
pub struct GuardBuf {
    map: *mut u8,
    map_len: usize,
    data: *mut u8,
    len: usize,
}

unsafe impl Send for GuardBuf {}
unsafe impl Sync for GuardBuf {}

impl GuardBuf {
    /// Miri has no mmap/mprotect: plain heap allocation, same layout (Miri itself then checks every
    /// access against the allocation bounds).
    #[cfg(miri)]
    pub fn new(len: usize, end_aligned: bool, _shared: bool) -> GuardBuf {
        let data_pages = ((len + PAGE - 1) / PAGE).max(1);
        let map_len = (data_pages + 2) * PAGE;
        unsafe {
            let map = std::alloc::alloc(std::alloc::Layout::from_size_align(map_len, PAGE).unwrap());
            std::ptr::write_bytes(map, 0xA5, map_len);
            let data = if end_aligned { map.add(map_len - PAGE - len) } else { map.add(PAGE) };
            GuardBuf { map, map_len, data, len }
        }
    }

    #[cfg(not(miri))]
    pub fn new(len: usize, end_aligned: bool, shared: bool) -> GuardBuf {
        let data_pages = (len + PAGE - 1) / PAGE;
        let data_pages = data_pages.max(1);
        let map_len = (data_pages + 2) * PAGE;
        unsafe {
            let flags = if shared { libc::MAP_SHARED } else { libc::MAP_PRIVATE } | libc::MAP_ANONYMOUS;
            let map = libc::mmap(std::ptr::null_mut(), map_len, libc::PROT_READ | libc::PROT_WRITE, flags, -1, 0) as *mut u8;
            assert!(map as isize != -1, "mmap failed");
            // fill with a recognisable pattern
            std::ptr::write_bytes(map, 0xA5, map_len);
            libc::mprotect(map as *mut _, PAGE, libc::PROT_NONE);
            libc::mprotect(map.add(map_len - PAGE) as *mut _, PAGE, libc::PROT_NONE);
            let data = if end_aligned { map.add(map_len - PAGE - len) } else { map.add(PAGE) };
            GuardBuf { map, map_len, data, len }
        }
    }
    /// A window into another GuardBuf's data (no mapping of its own: the parent must outlive it).
    /// Used to hand out two ADJACENT buffers carved from one mapping.
    pub fn view(parent: &GuardBuf, off: usize, len: usize) -> GuardBuf {
        assert!(off + len <= parent.len);
        GuardBuf { map: std::ptr::null_mut(), map_len: 0, data: unsafe { parent.data.add(off) }, len }
    }
    pub fn addr(&self) -> u64 {
        self.data as u64
    }
    pub fn len(&self) -> usize {
        self.len
    }
    pub fn as_slice(&self) -> &[u8] {
        unsafe { std::slice::from_raw_parts(self.data, self.len) }
    }
    #[allow(clippy::mut_from_ref)]
    pub fn as_mut(&self) -> &mut [u8] {
        unsafe { std::slice::from_raw_parts_mut(self.data, self.len) }
    }
    /// A fresh `&'static mut` view (the rbpf API ties buffer lifetimes to the VM lifetime).
    #[allow(clippy::mut_from_ref)]
    pub fn as_static_mut(&self) -> &'static mut [u8] {
        unsafe { std::slice::from_raw_parts_mut(self.data, self.len) }
    }
    pub fn fill(&self, bytes: &[u8]) {
        self.as_mut().copy_from_slice(bytes);
    }
    /// the accessible bytes around the data (between the guards) that are not data: canaries
    pub fn canary_ok(&self) -> bool {
        if self.map.is_null() {
            return true;
        }
        unsafe {
            let lo = self.map.add(PAGE);
            let hi = self.map.add(self.map_len - PAGE);
            let mut p = lo;
            while p < hi {
                if (p < self.data || p >= self.data.add(self.len)) && *p != 0xA5 {
                    return false;
                }
                p = p.add(1);
            }
        }
        true
    }
    pub fn reset_canary(&self) {
        if self.map.is_null() {
            return;
        }
        unsafe {
            let lo = self.map.add(PAGE);
            let hi = self.map.add(self.map_len - PAGE);
            let mut p = lo;
            while p < hi {
                if p < self.data || p >= self.data.add(self.len) {
                    *p = 0xA5;
                }
                p = p.add(1);
            }
        }
    }
    /// the whole accessible span between the two guard pages (data + canaries)
    pub fn span(&self) -> (u64, usize) {
        if self.map.is_null() {
            return (self.data as u64, self.len);
        }
        (self.map as u64 + PAGE as u64, self.map_len - 2 * PAGE)
    }
    pub fn span_bytes(&self) -> Vec<u8> {
        let (a, l) = self.span();
        unsafe { std::slice::from_raw_parts(a as *const u8, l).to_vec() }
    }
    /// place the data `off` bytes into the accessible span instead (for buffers that need mapped
    /// memory on both sides)
    pub fn new_centered(len: usize, off: usize, shared: bool) -> GuardBuf {
        let mut g = GuardBuf::new(len + 2 * off, false, shared);
        unsafe {
            g.data = g.data.add(off);
        }
        g.len = len;
        g
    }
    /// number of accessible bytes before / after the data (distance to the guards)
    pub fn slack_before(&self) -> usize {
        if self.map.is_null() {
            return 0;
        }
        self.data as usize - (self.map as usize + PAGE)
    }
    pub fn slack_after(&self) -> usize {
        if self.map.is_null() {
            return 0;
        }
        (self.map as usize + self.map_len - PAGE) - (self.data as usize + self.len)
    }
}

impl Drop for GuardBuf {
    fn drop(&mut self) {
        if self.map.is_null() {
            return;
        }
        unsafe {
            #[cfg(not(miri))]
            libc::munmap(self.map as *mut _, self.map_len);
            #[cfg(miri)]
            std::alloc::dealloc(self.map, std::alloc::Layout::from_size_align(self.map_len, PAGE).unwrap());
        }
    }
}

/// Shared (MAP_SHARED) scratch area a child writes results into.
pub struct Shared {
    pub ptr: *mut u8,
    pub len: usize,
}

impl Shared {
    #[cfg(miri)]
    pub fn new(len: usize) -> Shared {
        let p = unsafe { std::alloc::alloc_zeroed(std::alloc::Layout::from_size_align(len, 4096).unwrap()) };
        Shared { ptr: p, len }
    }

    #[cfg(not(miri))]
    pub fn new(len: usize) -> Shared {
        unsafe {
            let p = libc::mmap(
                std::ptr::null_mut(),
                len,
                libc::PROT_READ | libc::PROT_WRITE,
                libc::MAP_SHARED | libc::MAP_ANONYMOUS,
                -1,
                0,
            ) as *mut u8;
            assert!(p as isize != -1, "mmap shared failed");
            Shared { ptr: p, len }
        }
    }
    #[allow(clippy::mut_from_ref)]
    pub fn slice(&self) -> &mut [u8] {
        unsafe { std::slice::from_raw_parts_mut(self.ptr, self.len) }
    }
    pub fn u64_at(&self, idx: usize) -> u64 {
        unsafe { (self.ptr as *const u64).add(idx).read_volatile() }
    }
    pub fn set_u64(&self, idx: usize, v: u64) {
        unsafe { (self.ptr as *mut u64).add(idx).write_volatile(v) }
    }
}

impl Drop for Shared {
    fn drop(&mut self) {
        unsafe {
            #[cfg(not(miri))]
            libc::munmap(self.ptr as *mut _, self.len);
            #[cfg(miri)]
            std::alloc::dealloc(self.ptr, std::alloc::Layout::from_size_align(self.len, 4096).unwrap());
        }
    }
}

#[derive(Debug, Clone, Copy, PartialEq, Eq)]
pub enum ChildEnd {
    /// exited normally with this code
    Exit(i32),
    /// killed by this signal
    Signal(i32),
    /// wall-clock watchdog fired (inconclusive)
    WallTimeout,
    /// fork failed (inconclusive)
    ForkFailed,
}

/// Run `f` in a forked child. The child gets a CPU-time limit of `cpu_secs` (SIGXCPU when
/// exceeded) and the parent a wall-clock watchdog of `wall_secs`.
#[cfg(miri)]
pub fn in_child<F: FnOnce()>(_cpu_secs: u64, _wall_secs: u64, f: F) -> ChildEnd {
    // no fork under Miri: run inline (Miri reports UB itself and aborts the whole run)
    let r = panic::catch_unwind(AssertUnwindSafe(f));
    if r.is_err() {
        let msg = LAST_PANIC.with(|p| p.borrow().clone()).unwrap_or_default();
        if msg.contains("shared area full") {
            return ChildEnd::Exit(3); // same meaning as the forked child's exit code
        }
        eprintln!("[miri] inline case panicked: {msg}");
    }
    ChildEnd::Exit(if r.is_ok() { 0 } else { 101 })
}

#[cfg(not(miri))]
pub fn in_child<F: FnOnce()>(cpu_secs: u64, wall_secs: u64, f: F) -> ChildEnd {
    unsafe {
        let pid = libc::fork();
        if pid < 0 {
            return ChildEnd::ForkFailed;
        }
        if pid == 0 {
            // child
            let lim = libc::rlimit { rlim_cur: cpu_secs, rlim_max: cpu_secs + 2 };
            libc::setrlimit(libc::RLIMIT_CPU, &lim);
            let core = libc::rlimit { rlim_cur: 0, rlim_max: 0 };
            libc::setrlimit(libc::RLIMIT_CORE, &core);
            // default dispositions so that a fault kills us with the right signal
            for s in [libc::SIGSEGV, libc::SIGBUS, libc::SIGILL, libc::SIGFPE, libc::SIGABRT, libc::SIGXCPU, libc::SIGTRAP] {
                libc::signal(s, libc::SIG_DFL);
            }
            let r = panic::catch_unwind(AssertUnwindSafe(f));
            libc::_exit(if r.is_ok() { 0 } else { 101 });
        }
        // parent
        let start = std::time::Instant::now();
        let mut status: libc::c_int = 0;
        let mut spins = 0u32;
        loop {
            let r = libc::waitpid(pid, &mut status, libc::WNOHANG);
            if r == pid {
                break;
            }
            if r < 0 {
                return ChildEnd::ForkFailed;
            }
            if start.elapsed().as_secs() >= wall_secs {
                libc::kill(pid, libc::SIGKILL);
                libc::waitpid(pid, &mut status, 0);
                return ChildEnd::WallTimeout;
            }
            spins += 1;
            if spins < 200 {
                std::thread::yield_now();
            } else {
                std::thread::sleep(std::time::Duration::from_micros(if spins < 2000 { 50 } else { 1000 }));
            }
        }
        if libc::WIFEXITED(status) {
            ChildEnd::Exit(libc::WEXITSTATUS(status))
        } else if libc::WIFSIGNALED(status) {
            ChildEnd::Signal(libc::WTERMSIG(status))
        } else {
            ChildEnd::Exit(-1)
        }
    }
}

pub fn signame(s: i32) -> &'static str {
    match s {
        libc::SIGSEGV => "SIGSEGV",
        libc::SIGBUS => "SIGBUS",
        libc::SIGILL => "SIGILL",
        libc::SIGFPE => "SIGFPE",
        libc::SIGABRT => "SIGABRT",
        libc::SIGXCPU => "SIGXCPU",
        libc::SIGKILL => "SIGKILL",
        libc::SIGTRAP => "SIGTRAP",
        1077 => "VALGRIND-ERROR",
        1066 => "THREAD-SANITIZER-REPORT",
        _ => "SIG?",
    }
}

thread_local! {
    static LAST_PANIC: RefCell<Option<String>> = const { RefCell::new(None) };
}

/// Install a panic hook that records message + location instead of printing.
pub fn install_panic_hook() {
    panic::set_hook(Box::new(|info| {
        let loc = info.location().map(|l| format!("{}:{}", l.file(), l.line())).unwrap_or_default();
        let msg = if let Some(s) = info.payload().downcast_ref::<&str>() {
            s.to_string()
        } else if let Some(s) = info.payload().downcast_ref::<String>() {
            s.clone()
        } else {
            "<non-string panic>".to_string()
        };
        LAST_PANIC.with(|p| *p.borrow_mut() = Some(format!("{loc}: {msg}")));
    }));
}

/// Run `f`; on panic return Err("file:line: message").
pub fn catch<T, F: FnOnce() -> T>(f: F) -> Result<T, String> {
    LAST_PANIC.with(|p| *p.borrow_mut() = None);
    match panic::catch_unwind(AssertUnwindSafe(f)) {
        Ok(v) => Ok(v),
        Err(_) => Err(LAST_PANIC.with(|p| p.borrow_mut().take()).unwrap_or_else(|| "panic (no message)".into())),
    }
}

/// Strip volatile parts (numbers, addresses) from a panic/error message to get a stable signature.
pub fn panic_site(msg: &str) -> String {
    // keep "file:line" prefix if present and the first words of the message with digits squeezed
    // a dependency's source path: drop the machine-specific registry directory
    let msg: String = match (msg.find("/registry/src/"), msg.find(".cargo")) {
        (Some(i), Some(_)) => {
            let rest = &msg[i + "/registry/src/".len()..];
            format!("cargo-registry/{}", rest.split_once('/').map(|x| x.1).unwrap_or(rest))
        }
        _ => msg.to_string(),
    };
    let mut out = String::new();
    let mut last_hash = false;
    for c in msg.chars().take(160) {
        if c.is_ascii_digit() {
            if !last_hash {
                out.push('#');
                last_hash = true;
            }
        } else {
            out.push(c);
            last_hash = false;
        }
    }
    out
}

#[derive(Debug, Clone)]
pub enum CaseEnd {
    /// the child finished the case and wrote this record
    Done(Vec<u8>),
    /// the child was killed by this signal while running the case; the bytes are whatever the
    /// `on_death` callback of `run_batch_ex` collected in the parent right after the death
    Died(i32, Vec<u8>),
    /// emitted code did not finish within the (generous) CPU-time limit, even when re-run alone
    CpuTimeout,
    /// wall-clock watchdog / fork failure: no verdict
    Inconclusive(String),
}

/// Run cases `0..n` in forked children. `f(i, out)` runs case i and appends its result record to
/// `out`. A child that dies is replaced by a fresh one that continues after the fatal case.
pub fn run_batch<F: Fn(usize, &mut Vec<u8>)>(n: usize, cpu_secs: u64, cpu_alone_secs: u64, f: F) -> Vec<CaseEnd> {
    run_batch_ex(n, cpu_secs, cpu_alone_secs, f, &mut |_| Vec::new())
}

/// Like `run_batch`; `on_death(i)` runs in the parent immediately after case `i` killed its child
/// (before any later case runs), e.g. to inspect MAP_SHARED memory the dying case may have touched.
/// CPU-time limits are multiplied by MON_CPU_SCALE (set by the driver for slow variants such as
/// valgrind, where everything runs 20-50x slower; a limit hit there must not look like divergence).
pub fn cpu_scale() -> u64 {
    std::env::var("MON_CPU_SCALE").ok().and_then(|s| s.parse().ok()).unwrap_or(1)
}

pub fn run_batch_ex<F: Fn(usize, &mut Vec<u8>)>(n: usize, cpu_secs: u64, cpu_alone_secs: u64, f: F, on_death: &mut dyn FnMut(usize) -> Vec<u8>) -> Vec<CaseEnd> {
    let cpu_secs = cpu_secs * cpu_scale();
    let cpu_alone_secs = cpu_alone_secs * cpu_scale();
    const AREA: usize = if cfg!(miri) { 1 << 18 } else { 16 << 20 };
    let mut ends: Vec<Option<CaseEnd>> = (0..n).map(|_| None).collect();
    let mut start = 0usize;
    let sh = Shared::new(AREA);
    while start < n {
        // header: [0]=current case (started), [1]=cases done (absolute index of next), [2]=bytes used
        sh.set_u64(0, start as u64);
        sh.set_u64(1, start as u64);
        sh.set_u64(2, 32);
        let end = in_child(cpu_secs, 600, || {
            let mut out: Vec<u8> = Vec::new();
            for i in start..n {
                sh.set_u64(0, i as u64);
                out.clear();
                f(i, &mut out);
                let off = sh.u64_at(2) as usize;
                if off + out.len() + 16 > AREA {
                    #[cfg(not(miri))]
                    unsafe {
                        libc::_exit(3)
                    };
                    #[cfg(miri)]
                    panic!("shared area full");
                }
                let s = sh.slice();
                s[off..off + 8].copy_from_slice(&(out.len() as u64).to_le_bytes());
                s[off + 8..off + 8 + out.len()].copy_from_slice(&out);
                sh.set_u64(2, (off + 8 + out.len() + 7 & !7) as u64);
                sh.set_u64(1, i as u64 + 1);
            }
        });
        // collect finished records
        let done = sh.u64_at(1) as usize;
        let mut off = 32usize;
        for i in start..done {
            let s = sh.slice();
            let len = u64::from_le_bytes(s[off..off + 8].try_into().unwrap()) as usize;
            ends[i] = Some(CaseEnd::Done(s[off + 8..off + 8 + len].to_vec()));
            off = off + 8 + len + 7 & !7;
        }
        match end {
            ChildEnd::Exit(0) if done == n => {
                start = n;
            }
            ChildEnd::Exit(3) => {
                // area full: continue with a fresh area from `done`
                if done == start {
                    ends[start] = Some(CaseEnd::Inconclusive("result record larger than shared area".into()));
                    start += 1;
                } else {
                    start = done;
                }
            }
            ChildEnd::Exit(77) => {
                // valgrind (--error-exitcode=77) reported errors somewhere in this child: find the
                // cases by re-running each one in its own child
                for i in start..done.max(start) {
                    let e1 = in_child(cpu_alone_secs, 900, || {
                        let mut out = Vec::new();
                        f(i, &mut out);
                    });
                    if e1 == ChildEnd::Exit(77) {
                        ends[i] = Some(CaseEnd::Died(1077, on_death(i)));
                    }
                }
                if done < n {
                    ends[done] = Some(CaseEnd::Died(1077, on_death(done)));
                    start = done + 1;
                } else {
                    start = n;
                }
            }
            ChildEnd::Exit(66) => {
                // ThreadSanitizer (exitcode=66) reported a data race in this child: the case that was
                // running (or, if all finished, the last one) carries the report
                let at = done.min(n - 1);
                ends[at] = Some(CaseEnd::Died(1066, on_death(at)));
                start = at + 1;
            }
            ChildEnd::Exit(c) => {
                // unexpected exit (panic escaped f => 101)
                if done < n {
                    ends[done] = Some(CaseEnd::Inconclusive(format!("child exited with code {c} in case {done}")));
                    start = done + 1;
                } else {
                    start = n;
                }
            }
            ChildEnd::Signal(sig) => {
                let cur = sh.u64_at(0) as usize;
                let cur = cur.max(done).min(n - 1);
                if sig == libc::SIGXCPU || sig == libc::SIGKILL {
                    // re-run alone with its own (generous) limit
                    let sh2 = Shared::new(1 << 20);
                    sh2.set_u64(1, 0);
                    let e2 = in_child(cpu_alone_secs, 900, || {
                        let mut out = Vec::new();
                        f(cur, &mut out);
                        let s = sh2.slice();
                        if out.len() + 32 < s.len() {
                            s[16..24].copy_from_slice(&(out.len() as u64).to_le_bytes());
                            s[24..24 + out.len()].copy_from_slice(&out);
                            sh2.set_u64(1, 1);
                        }
                    });
                    ends[cur] = Some(match e2 {
                        ChildEnd::Exit(0) if sh2.u64_at(1) == 1 => {
                            let s = sh2.slice();
                            let len = u64::from_le_bytes(s[16..24].try_into().unwrap()) as usize;
                            CaseEnd::Done(s[24..24 + len].to_vec())
                        }
                        ChildEnd::Signal(s) if s == libc::SIGXCPU || s == libc::SIGKILL => CaseEnd::CpuTimeout,
                        ChildEnd::Signal(s) => CaseEnd::Died(s, on_death(cur)),
                        other => CaseEnd::Inconclusive(format!("re-run ended with {other:?}")),
                    });
                } else {
                    ends[cur] = Some(CaseEnd::Died(sig, on_death(cur)));
                }
                start = cur + 1;
            }
            ChildEnd::WallTimeout => {
                let cur = (sh.u64_at(0) as usize).max(done).min(n - 1);
                ends[cur] = Some(CaseEnd::Inconclusive("wall-clock watchdog".into()));
                start = cur + 1;
            }
            ChildEnd::ForkFailed => {
                for e in ends.iter_mut().skip(start) {
                    if e.is_none() {
                        *e = Some(CaseEnd::Inconclusive("fork failed".into()));
                    }
                }
                start = n;
            }
        }
    }
    ends.into_iter().map(|e| e.unwrap_or(CaseEnd::Inconclusive("no record".into()))).collect()
}
