//! C09: each VM kind presents the documented execution context (r1, r10 window, metadata buffer
//! contents for the fixed-metadata VM, packet addressing of ld_abs/ld_ind) under all engines.

use crate::engines::{hooks, Engine, Kind, Vm};
use crate::isa::*;
use crate::report::Report;
use crate::sys::{self, CaseEnd, GuardBuf};
use crate::util::{hex, Rng};
use crate::Args;
use serde_json::json;

#[derive(Clone, Copy, Debug, PartialEq, Eq)]
enum Probe {
    R1,
    FixedData,
    FixedEnd,
    FixedDiff,
    StackTop,
    StackBottom,
    StackAboveTop,
    StackBelowBottom,
    LdAbs(u8, u32),
    LdInd(u8, u32),
    /// ld_abs after a call to an ABI-legal helper that overwrites every caller-saved register
    LdAbsAfterHelper(u8, u32),
    /// the program keeps values in its stack (top and bottom slot) and in r6 across a call to a
    /// helper that runs ANOTHER VM's interpreter, whose program overwrites its own whole stack:
    /// "a private 512-byte stack" must stay private
    NestedRun,
}

/// helper #2 of the NestedRun probe: interprets a program that fills its 512-byte stack
pub fn nested_run_helper(_a: u64, _b: u64, _c: u64, _d: u64, _e: u64) -> u64 {
    let mut v: Vec<Insn> = Vec::new();
    for k in 1..=64i16 {
        v.push(Insn::new(STDW, 10, 0, -8 * k, 0x0bad_f00d));
    }
    v.push(Insn::new(MOV64_IMM, 0, 0, 0, 5));
    v.push(Insn::new(EXIT, 0, 0, 0, 0));
    let prog = encode_prog(&v);
    hooks::suspended(|| match Vm::new(Kind::NoData, Some(&prog), (0, 8)) {
        Ok(mut vm) => vm.exec((std::ptr::null_mut(), 0), (std::ptr::null_mut(), 0)).unwrap_or(99),
        Err(_) => 98,
    })
}

fn big_load(v: &mut Vec<Insn>, dst: u8, base: u8, off: usize) {
    // dst = *(u64*)(base + off) for any off
    if off <= 32760 {
        v.push(Insn::new(LDXDW, dst, base, off as i16, 0));
    } else {
        v.push(Insn::new(MOV64_REG, dst, base, 0, 0));
        v.push(Insn::new(ADD64_IMM, dst, 0, 0, off as i32));
        v.push(Insn::new(LDXDW, dst, dst, 0, 0));
    }
}

fn probe_prog(p: Probe, offs: (usize, usize)) -> Vec<u8> {
    let mut v: Vec<Insn> = Vec::new();
    match p {
        Probe::R1 => v.push(Insn::new(MOV64_REG, 0, 1, 0, 0)),
        Probe::FixedData => big_load(&mut v, 0, 1, offs.0),
        Probe::FixedEnd => big_load(&mut v, 0, 1, offs.1),
        Probe::FixedDiff => {
            big_load(&mut v, 2, 1, offs.0);
            big_load(&mut v, 0, 1, offs.1);
            v.push(Insn::new(SUB64_REG, 0, 2, 0, 0));
        }
        Probe::NestedRun => {
            v.push(Insn::new(STDW, 10, 0, -8, 0x1234_abcd));
            v.push(Insn::new(STDW, 10, 0, -512, 0x55aa));
            v.push(Insn::new(MOV64_IMM, 6, 0, 0, 0x777));
            v.push(Insn::new(CALL, 0, 0, 0, 2));
            v.push(Insn::new(MOV64_REG, 7, 0, 0, 0)); // 5 from the helper
            v.push(Insn::new(LDXDW, 0, 10, -8, 0));
            v.push(Insn::new(LDXDW, 3, 10, -512, 0));
            v.push(Insn::new(ADD64_REG, 0, 3, 0, 0));
            v.push(Insn::new(ADD64_REG, 0, 6, 0, 0));
            v.push(Insn::new(ADD64_REG, 0, 7, 0, 0));
        }
        Probe::StackTop => {
            v.push(Insn::new(STB, 10, 0, -1, 0x77));
            v.push(Insn::new(LDXB, 0, 10, -1, 0));
        }
        Probe::StackBottom => {
            v.push(Insn::new(STDW, 10, 0, -512, 0x1234567));
            v.push(Insn::new(LDXDW, 0, 10, -512, 0));
        }
        Probe::StackAboveTop => {
            v.push(Insn::new(MOV64_IMM, 0, 0, 0, 5));
            v.push(Insn::new(STB, 10, 0, 0, 0x77));
        }
        Probe::StackBelowBottom => {
            v.push(Insn::new(MOV64_IMM, 0, 0, 0, 5));
            v.push(Insn::new(STB, 10, 0, -513, 0x77));
        }
        Probe::LdAbs(w, k) => {
            let sz = match w {
                1 => 0x10,
                2 => 0x08,
                4 => 0x00,
                _ => 0x18,
            };
            v.push(Insn::new(0x20 | sz, 0, 0, 0, k as i32));
        }
        Probe::LdAbsAfterHelper(w, k) => {
            let sz = match w {
                1 => 0x10,
                2 => 0x08,
                4 => 0x00,
                _ => 0x18,
            };
            for r in 1..=5u8 {
                v.push(Insn::new(MOV64_IMM, r, 0, 0, r as i32));
            }
            v.push(Insn::new(CALL, 0, 0, 0, 1));
            v.push(Insn::new(0x20 | sz, 0, 0, 0, k as i32));
        }
        Probe::LdInd(w, k) => {
            let sz = match w {
                1 => 0x10,
                2 => 0x08,
                4 => 0x00,
                _ => 0x18,
            };
            let a = k / 2;
            v.push(Insn::new(MOV64_IMM, 3, 0, 0, (k - a) as i32));
            v.push(Insn::new(0x40 | sz, 0, 3, 0, a as i32));
        }
    }
    v.push(Insn::new(EXIT, 0, 0, 0, 0));
    encode_prog(&v)
}

struct C9 {
    kind: Kind,
    offs: (usize, usize),
    probe: Probe,
    engine: Engine,
    pkts: Vec<usize>, // indexes into the packet pool
    /// create the VM with other offsets / another program first, then load through set_program
    via_set_program: bool,
    /// metadata VM handed an EMPTY metadata buffer: r1 is then the packet address (0 for an empty
    /// packet) - the interpreter's rule, which the compiled engines must share
    mbuff_empty: bool,
}

pub fn run(a: &Args, rep: &mut Report) {
    let mut rng = Rng::derive(a.seed, a.shard, 9);
    let q = a.tier == "quick";
    let n = ((if q { 40_000.0 } else { 2_000_000.0 }) * a.scale) as u64 / a.nshards;
    // packet pool: lengths incl. 0; allocated before forking so the parent knows the addresses
    let lens = [0usize, 1, 7, 8, 9, 64, 1500, 4096];
    let pool: Vec<Option<GuardBuf>> = lens
        .iter()
        .flat_map(|l| [(*l, true), (*l, false)])
        .map(|(l, e)| {
            if l == 0 {
                None
            } else {
                let g = GuardBuf::new(l, e, false);
                let bytes: Vec<u8> = (0..l).map(|i| (i as u8).wrapping_mul(31).wrapping_add(l as u8)).collect();
                g.fill(&bytes);
                Some(g)
            }
        })
        .collect();
    // packets that START AT THE SAME ADDRESS as another packet of the pool but have another length
    // (a receive slot reused for a shorter frame): windows into the start-aligned 64/1500/4096-byte
    // buffers. A VM that remembers anything about the previous packet by its address is wrong here.
    let mut pool = pool;
    let mut same_start: Vec<(usize, usize)> = Vec::new();
    if !cfg!(miri) {
        for (idx, short) in [(11usize, 32usize), (13, 700), (15, 100), (15, 4095)] {
            if let Some(parent) = pool[idx].as_ref() {
                let v = GuardBuf::view(parent, 0, short);
                pool.push(Some(v));
                same_start.push((idx, pool.len() - 1));
            }
        }
    }
    let pool = pool;
    let mbuff = GuardBuf::new(32, true, false);
    mbuff.fill(&[0xabu8; 32]);
    let engines: Vec<Engine> = if cfg!(feature = "std") { vec![Engine::Interp, Engine::Jit, Engine::Cranelift] } else { vec![Engine::Interp, Engine::Jit] };
    let mut cases: Vec<C9> = Vec::new();
    for k in 0..n {
        let kind = crate::engines::KINDS[(k % 4) as usize];
        let offs = match rng.below(9) {
            0 => (0usize, 8usize),
            1 => (8, 0),
            2 => (0x40, 0x50),
            3 => (0x50, 0x40),
            4 => (16, 24),
            5 => (0, 1 << 20),
            6 => (1 << 24, 8),
            _ => {
                let x = rng.below(1 << 16) as usize;
                let mut y = rng.below(1 << 16) as usize;
                if x.abs_diff(y) < 8 {
                    y = x + 8 + rng.below(64) as usize;
                }
                (x, y)
            }
        };
        let engine = engines[rng.below(engines.len() as u64) as usize];
        let probe = match (kind, rng.below(13)) {
            (_, 0) | (_, 1) => Probe::R1,
            (_, 12) => Probe::NestedRun,
            (Kind::Fixed, 2) => Probe::FixedData,
            (Kind::Fixed, 3) => Probe::FixedEnd,
            (Kind::Fixed, 4) | (Kind::Fixed, 5) => Probe::FixedDiff,
            (_, 6) => Probe::StackTop,
            (_, 7) => Probe::StackBottom,
            (_, 8) => Probe::StackAboveTop,
            (_, 9) => Probe::StackBelowBottom,
            (Kind::NoData, _) => Probe::R1,
            (_, 10) => {
                if rng.chance(1, 2) { Probe::LdAbs(*rng.pick(&[1u8, 2, 4, 8]), rng.below(8) as u32) } else { Probe::LdAbsAfterHelper(*rng.pick(&[1u8, 2, 4, 8]), rng.below(8) as u32) }
            }
            _ => Probe::LdInd(*rng.pick(&[1u8, 2, 4, 8]), rng.below(8) as u32),
        };
        // out-of-window probes cannot be observed under the JIT (no bounds checks there)
        if engine == Engine::Jit && matches!(probe, Probe::StackAboveTop | Probe::StackBelowBottom) {
            continue;
        }
        let pkts: Vec<usize> = if !same_start.is_empty() && rng.chance(1, 4) {
            // long packet, shorter packet at the same address, long packet again (or the reverse)
            let (a, b) = same_start[rng.below(same_start.len() as u64) as usize];
            if rng.chance(1, 2) { vec![a, b, a] } else { vec![b, a, b] }
        } else {
            (0..3).map(|_| rng.below(pool.len() as u64) as usize).collect()
        };
        let mbuff_empty = kind == Kind::Mbuff && matches!(probe, Probe::R1) && rng.chance(1, 2);
        cases.push(C9 { kind, offs, probe, engine, pkts, via_set_program: rng.chance(1, 3), mbuff_empty });
    }
    let pk = |i: usize| -> (*mut u8, usize) { pool[i].as_ref().map(|g| (g.addr() as *mut u8, g.len())).unwrap_or((std::ptr::null_mut(), 0)) };
    // record per execution: status(0 ok,1 err,2 panic) value, hook mbuff addr (interp reference run)
    let ends = sys::run_batch(cases.len(), 120, 60, |i, out| {
        let c = &cases[i];
        let prog = probe_prog(c.probe, c.offs);
        let r1prog = probe_prog(Probe::R1, c.offs);
        let r = sys::catch(|| -> Result<Vec<(u8, u64, u64)>, String> {
            let mut vm = if c.via_set_program {
                // initial offsets: either unrelated ones or the SAME two offsets swapped (same buffer size)
                let init = if c.pkts[0] % 2 == 0 { (c.offs.1, c.offs.0) } else { (c.offs.1 / 2 + 8, 0) };
                let mut vm = Vm::new(c.kind, Some(&r1prog), init)?;
                vm.set_program(&prog, c.offs)?;
                vm
            } else {
                Vm::new(c.kind, Some(&prog), c.offs)?
            };
            vm.register_helper(1, crate::hlp::hostile(0))?;
            vm.register_helper(2, nested_run_helper)?;
            // a load the verifier refuses (for the fixed VM: with smaller offsets than the ones in
            // force) must leave the context as it was - offsets and internal buffer included
            if c.pkts[0] % 3 == 1 {
                if vm.set_program(&crate::exec::REFUSED_PROG, (0, 8)).is_ok() {
                    return Err("the refused placeholder program was accepted".into());
                }
            }
            match c.engine {
                Engine::Jit => vm.jit_compile()?,
                #[cfg(feature = "std")]
                Engine::Cranelift => vm.cl_compile()?,
                _ => {}
            }
            let mut obs = Vec::new();
            let mut maddr = 0u64;
            let mut have_maddr = false;
            for pi in &c.pkts {
                let mb = if c.kind == Kind::Mbuff && !c.mbuff_empty { (mbuff.addr() as *mut u8, mbuff.len()) } else { (std::ptr::null_mut(), 0) };
                if let Probe::LdAbs(wd, k) | Probe::LdInd(wd, k) | Probe::LdAbsAfterHelper(wd, k) = c.probe {
                    // compiled engines are only run on in-packet loads (outside: C11 / not claimed)
                    if c.engine != Engine::Interp && (k as usize + wd as usize) > pk(*pi).1 {
                        obs.push((9, 0, 0));
                        continue;
                    }
                }
                // ONE reference run of the interpreter on the same VM object (before the first
                // execution only, so that it cannot mask state left over between executions) to
                // learn the address of the fixed VM's internal buffer (hook)
                if !have_maddr {
                    hooks::unlimited();
                    let _ = vm.exec(pk(*pi), mb);
                    maddr = hooks::mbuff().0;
                    have_maddr = true;
                }
                let r = unsafe {
                    match c.engine {
                        Engine::Interp => vm.exec(pk(*pi), mb),
                        Engine::Jit => vm.exec_jit(pk(*pi), mb),
                        #[cfg(feature = "std")]
                        Engine::Cranelift => vm.exec_cl(pk(*pi), mb),
                        #[cfg(not(feature = "std"))]
                        Engine::Cranelift => Err("n/a".into()),
                    }
                };
                match r {
                    Ok(v) => obs.push((0, v, maddr)),
                    Err(_) => obs.push((1, 0, maddr)),
                }
            }
            let _ = &r1prog;
            Ok(obs)
        });
        match r {
            Ok(Ok(obs)) => {
                out.push(0);
                out.push(obs.len() as u8);
                for (s, v, m) in obs {
                    out.push(s);
                    out.extend_from_slice(&v.to_le_bytes());
                    out.extend_from_slice(&m.to_le_bytes());
                }
            }
            Ok(Err(e)) => {
                out.push(1);
                out.extend_from_slice(e.as_bytes());
            }
            Err(p) => {
                out.push(2);
                out.extend_from_slice(p.as_bytes());
            }
        }
    });
    for (c, e) in cases.iter().zip(ends.iter()) {
        rep.set("load_paths", if c.via_set_program { "new+set_program" } else { "new" });
        let cell = format!("{}:{}:{:?}", c.kind.name(), c.engine.name(), match c.probe { Probe::LdAbs(w, _) => Probe::LdAbs(w, 0), Probe::LdInd(w, _) => Probe::LdInd(w, 0), Probe::LdAbsAfterHelper(w, _) => Probe::LdAbsAfterHelper(w, 0), p => p });
        rep.set("cells", cell.clone());
        rep.set("offset_pairs", format!("{:?}", c.offs));
        rep.case(Some(crate::util::fnv(format!("{cell}{:?}{:?}{:?}", c.offs, c.pkts, c.probe).as_bytes())));
        let w = json!({"kind": "context-case", "vm": c.kind.name(), "engine": c.engine.name(), "probe": format!("{:?}", c.probe), "offsets": [c.offs.0, c.offs.1], "via_set_program": c.via_set_program, "empty_metadata_buffer": c.mbuff_empty,
            "packets": c.pkts.iter().map(|i| format!("{:#x}+{}", pk(*i).0 as u64, pk(*i).1)).collect::<Vec<_>>(), "prog": hex(&probe_prog(c.probe, c.offs))});
        let sig = |k: &str| format!("C09:{}:{}:{k}", c.kind.name(), c.engine.name());
        let bad_probe = matches!(c.probe, Probe::StackAboveTop | Probe::StackBelowBottom);
        match e {
            CaseEnd::Died(s, _) => {
                if bad_probe && c.engine == Engine::Cranelift && *s == libc::SIGILL {
                    rep.count("stack_window_traps");
                } else {
                    rep.violation(&sig(&format!("signal-{}:{:?}", sys::signame(*s), c.probe)), format!("{cell}: killed by {}", sys::signame(*s)), w);
                }
            }
            CaseEnd::CpuTimeout => rep.violation(&sig("diverged"), cell, w),
            CaseEnd::Inconclusive(s) => rep.inconclusive(s.clone()),
            CaseEnd::Done(b) => {
                if b[0] != 0 {
                    let msg = String::from_utf8_lossy(&b[1..]).to_string();
                    rep.violation(&sig(if b[0] == 2 { "panic" } else { "setup-error" }), format!("{cell}: {msg}"), w);
                    continue;
                }
                let n = b[1] as usize;
                let mut ok = true;
                for x in 0..n {
                    let o = 2 + x * 17;
                    let st = b[o];
                    if st == 9 {
                        continue;
                    }
                    let v = u64::from_le_bytes(b[o + 1..o + 9].try_into().unwrap());
                    let maddr = u64::from_le_bytes(b[o + 9..o + 17].try_into().unwrap());
                    let (pa, pl) = pk(c.pkts[x]);
                    let pa = pa as u64;
                    let pkt_bytes: Vec<u8> = pool[c.pkts[x]].as_ref().map(|g| g.as_slice().to_vec()).unwrap_or_default();
                    let want: Result<u64, ()> = match c.probe {
                        Probe::R1 => Ok(match c.kind {
                            Kind::Raw => if pl == 0 { 0 } else { pa },
                            Kind::Mbuff if c.mbuff_empty => if pl == 0 { 0 } else { pa },
                            Kind::Mbuff => mbuff.addr(),
                            Kind::Fixed => maddr,
                            Kind::NoData => 0,
                        }),
                        Probe::FixedData => {
                            if pl == 0 { continue } else { Ok(pa) }
                        }
                        Probe::FixedEnd => {
                            if pl == 0 { continue } else { Ok(pa + pl as u64) }
                        }
                        Probe::FixedDiff => Ok(pl as u64),
                        Probe::NestedRun => Ok(0x1234_abcd + 0x55aa + 0x777 + 5),
                        Probe::StackTop => Ok(0x77),
                        Probe::StackBottom => Ok(0x1234567),
                        Probe::StackAboveTop | Probe::StackBelowBottom => Err(()),
                        Probe::LdAbs(wd, k) | Probe::LdInd(wd, k) | Probe::LdAbsAfterHelper(wd, k) => {
                            if (k as usize) + wd as usize <= pl {
                                let mut x = 0u64;
                                for j in 0..wd as usize {
                                    x |= (pkt_bytes[k as usize + j] as u64) << (8 * j);
                                }
                                Ok(x)
                            } else {
                                // out of the packet: interpreter must refuse; compiled engines are
                                // outside this property (C11 covers Cranelift)
                                if c.engine == Engine::Interp { Err(()) } else { continue }
                            }
                        }
                    };
                    rep.count("executions_checked");
                    match (want, st) {
                        (Ok(wv), 0) if wv == v => {}
                        (Ok(wv), 0) => {
                            ok = false;
                            rep.violation(&sig(&format!("{:?}:value", match c.probe { Probe::LdAbs(w, _) => Probe::LdAbs(w, 0), Probe::LdInd(w, _) => Probe::LdInd(w, 0), Probe::LdAbsAfterHelper(w, _) => Probe::LdAbsAfterHelper(w, 0), p => p })), format!("{cell}: execution #{x} (packet {pa:#x}+{pl}, offsets {:?}) observed {v:#x}, expected {wv:#x}", c.offs), w.clone());
                        }
                        (Ok(wv), _) => {
                            ok = false;
                            rep.violation(&sig(&format!("{:?}:err", c.probe)), format!("{cell}: execution #{x} returned an error, expected {wv:#x}"), w.clone());
                        }
                        (Err(()), 1) => {}
                        (Err(()), _) => {
                            ok = false;
                            rep.violation(&sig(&format!("{:?}:not-refused", c.probe)), format!("{cell}: execution #{x} returned Ok({v:#x}) for an access outside the 512-byte stack window / packet"), w.clone());
                        }
                    }
                    if !ok {
                        break;
                    }
                }
                if ok && rep.want_sample() && rep.get("evaluations") % 997 == 3 {
                    rep.sample(w);
                }
            }
        }
    }
}
