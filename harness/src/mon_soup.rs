//! C05: verifier-accepted byte strings never crash the interpreter.
//! C12: compiling any verified program returns Ok/Err, never panics/overruns, and is repeatable.

use crate::diff::{has_local_call, pre_run, Pre};
use crate::engines::{hooks, Engine, Kind, Vm};
use crate::exec::*;
use crate::genp::{self, Case};
use crate::isa::*;
use crate::refvm::Outcome;
use crate::report::Report;
use crate::sys::{self, CaseEnd};
use crate::util::{fnv, hex, Rng};
use crate::Args;
use serde_json::json;

const C05_BUDGET: u64 = 40_000;

fn accepted(kind: Kind, prog: &[u8]) -> bool {
    matches!(sys::catch(|| Vm::new(kind, Some(prog), (0, 8)).is_ok()), Ok(true))
}

/// hostile program source: soup, mutated structured programs, rule-targeted tweaks
fn hostile_prog(rng: &mut Rng) -> (Vec<u8>, &'static str) {
    match rng.below(10) {
        0..=4 => (genp::gen_soup(rng), "soup"),
        5..=7 => {
            let mut p = genp::gen_struct(rng, &genp::StructOpts::default()).0.prog;
            for _ in 0..rng.range(1, 3) {
                let slot = rng.below((p.len() / 8) as u64) as usize * 8;
                match rng.below(5) {
                    0 => p[slot] = *rng.pick(&all_supported_opcodes()),
                    1 => p[slot + 1] = (rng.below(11) as u8) << 4 | rng.below(10) as u8,
                    2 => {
                        let o = rng.range(-6, 6) as i16;
                        p[slot + 2..slot + 4].copy_from_slice(&o.to_le_bytes());
                    }
                    3 => {
                        let i = rng.interesting_i32().0;
                        p[slot + 4..slot + 8].copy_from_slice(&i.to_le_bytes());
                    }
                    _ => {
                        // change the last instruction
                        let n = p.len();
                        let ops: Vec<u8> = all_supported_opcodes().into_iter().filter(|o| o & 7 == CLS_JMP).collect();
                        p[n - 8] = *rng.pick(&ops);
                        p[n - 6..n - 4].copy_from_slice(&(rng.range(-5, -2) as i16).to_le_bytes());
                    }
                }
            }
            (p, "mutated-struct")
        }
        8 => {
            // call graph soup: many local calls with random displacements
            let n = rng.range(4, 20) as usize;
            let mut v: Vec<Insn> = Vec::new();
            for i in 0..n {
                match rng.below(4) {
                    0 => v.push(Insn::new(CALL, 0, 1, 0, rng.range(-(i as i64) - 1, (n - i) as i64) as i32)),
                    1 => v.push(Insn::new(EXIT, 0, 0, 0, 0)),
                    2 => v.push(Insn::new(ADD64_IMM, rng.below(10) as u8, 0, 0, 1)),
                    _ => v.push(Insn::new(JNE_IMM, rng.below(10) as u8, 0, rng.range(-(i as i64) - 1, (n - i) as i64 - 1) as i16, 0)),
                }
            }
            v.push(Insn::new(EXIT, 0, 0, 0, 0));
            (encode_prog(&v), "callgraph-soup")
        }
        _ => {
            // register / opcode extremes in otherwise straight-line code
            let n = rng.range(1, 8);
            let mut v: Vec<Insn> = Vec::new();
            for _ in 0..n {
                let opc = *rng.pick(&all_supported_opcodes());
                if opc == LDDW {
                    v.push(Insn::new(opc, rng.below(11) as u8, rng.below(16) as u8, rng.next() as i16, rng.next() as i32));
                    v.push(Insn::new(0, rng.below(16) as u8, rng.below(16) as u8, rng.next() as i16, rng.next() as i32));
                } else {
                    v.push(Insn::new(opc, rng.below(11) as u8, rng.below(11) as u8, rng.range(0, 3) as i16, if opc == LE || opc == BE { 64 } else { rng.interesting_i32().0 }));
                }
            }
            v.push(Insn::new(EXIT, rng.below(10) as u8, rng.below(11) as u8, rng.next() as i16, rng.next() as i32));
            (encode_prog(&v), "field-extremes")
        }
    }
}

fn soup_case(rng: &mut Rng) -> Option<(Case, &'static str)> {
    let (prog, origin) = hostile_prog(rng);
    let kind = crate::engines::KINDS[rng.below(4) as usize];
    if !accepted(kind, &prog) {
        return None;
    }
    let mut c = Case::new(kind, prog, origin);
    if kind != Kind::NoData {
        let len = *rng.pick(&[0usize, 1, 8, 16, 64, 7, 9, 17, 33, 63]); // (odd lengths: end-aligned packets then start at odd addresses)
        c.pkt = rng.bytes(len);
    }
    if kind == Kind::Mbuff {
        let ml = *rng.pick(&[0usize, 8, 16, 32]);
        c.mbuff = rng.bytes(ml);
    }
    c.offs = *rng.pick(&[(0usize, 8usize), (8, 0), (16, 24)]);
    for _ in 0..rng.below(4) {
        let id = *rng.pick(&[0u32, 1, 2, 3, 5, 0xffff_ffff, 0x8000_0000]);
        if !c.helpers.iter().any(|(i, _)| *i == id) {
            c.helpers.push((id, rng.below(8) as usize));
        }
    }
    if rng.chance(1, 6) {
        c.calc = genp::CalcSpec::Const(*rng.pick(&[0u16, 8, 256, 512, 65535]));
    }
    c.end_aligned = rng.chance(1, 2);
    Some((c, origin))
}

pub fn run_c05(a: &Args, rep: &mut Report) {
    let mut rng = Rng::derive(a.seed, a.shard, 5);
    // a few very long accepted programs (far jumps and far local calls)
    if !cfg!(miri) && a.shard < 7 {
        for n in [40_000usize, 70_000] {
            let nn = n + rng.below(500) as usize;
            // (shard 6: the program in which jumps of exactly +32767 and -32768 are taken)
            let c = if a.shard == 6 { genp::gen_extreme_jumps() } else { genp::gen_long(&mut rng, nn, a.shard) };
            if accepted(c.kind, &c.prog) {
                let bufs = Bufs::new(&c);
                let ir = run_interp(&c, &bufs, 400_000, 0);
                rep.case(Some(c.hash()));
                rep.set("origins", "long");
                if let Ran::Panic(m) = &ir.ran {
                    rep.violation(&format!("C05:panic:{}:long-program", sys::panic_site(m)), format!("interpreter panicked on a verifier-accepted {}-instruction program ({}): {m}", c.prog.len() / 8, c.class), json!({"kind": "exec-case", "case": {"class": c.class, "len": c.prog.len() / 8, "calc": c.calc.to_json()}, "interp": ir.ran.short()}));
                }
            }
        }
    }
    let q = a.tier == "quick";
    let n = ((if q { 1_600_000.0 } else { 80_000_000.0 }) * a.scale) as u64 / a.nshards;
    let mut k = 0u64;
    let mut ngen = 0u64;
    while k < n {
        ngen += 1;
        let Some((c, origin)) = soup_case(&mut rng) else {
            rep.count("generated_rejected_by_verifier");
            if ngen > 50 * n + 1000 {
                break;
            }
            continue;
        };
        k += 1;
        rep.set("origins", origin);
        rep.set("vm_kinds", c.kind.name());
        // one accepted program in eight is loaded from an unaligned address, its packet placed at
        // the other end of the mapping and its metadata buffer mapped first
        let c = if k % 8 == 5 {
            rep.count("placement_variants");
            c.with_placement(k as u8)
        } else {
            c
        };
        let bufs = Bufs::new(&c);
        let ir = run_interp(&c, &bufs, C05_BUDGET, C05_BUDGET as usize);
        rep.case(Some(c.hash()));
        // last instruction kinds seen
        let n_ins = c.prog.len() / 8;
        let last = decode_at(&c.prog, n_ins - 1);
        rep.set("last_instruction_opcodes", format!("{:#04x}", last.opc));
        match &ir.ran {
            Ran::Ok(_) => rep.count("outcome_ok"),
            Ran::Err(e) if ir.budget_hit => {
                let _ = e;
                rep.count("outcome_budget_kept_running")
            }
            Ran::Err(e) => {
                rep.count("outcome_err");
                let kind = e.split('(').next().unwrap_or("").chars().take(40).collect::<String>();
                rep.set("err_kinds", kind);
            }
            Ran::Panic(_) => rep.count("outcome_panic"),
            Ran::Rejected(_) => rep.count("rejected_at_load"),
        }
        if rep.want_sample() && k % 60013 == 5 {
            rep.sample(json!({"case": c.to_json(), "outcome": ir.ran.short(), "steps": ir.steps}));
        }
        let w = || json!({"kind": "exec-case", "case": c.to_json(), "interp": ir.ran.short()});
        if let Ran::Panic(m) = &ir.ran {
            // where in the program? use the trace
            let last_pc = ir.trace.last().copied().unwrap_or(0) as usize;
            let at = if last_pc < n_ins { mnemonic(decode_at(&c.prog, last_pc).opc, 0).unwrap_or_else(|| "non-instruction".into()) } else { "outside".into() };
            rep.violation(&format!("C05:panic:{}:at-{at}", sys::panic_site(m)), format!("interpreter panicked on a verifier-accepted program: {m}"), w());
            continue;
        }
        // offline check of the executed pc sequence (hook): every pc is an instruction start
        let mut is_hi = vec![false; n_ins];
        let mut pc = 0;
        while pc < n_ins {
            if decode_at(&c.prog, pc).opc == LDDW && pc + 1 < n_ins {
                is_hi[pc + 1] = true;
                pc += 2;
            } else {
                pc += 1;
            }
        }
        let mut bad_pc = None;
        for p in &ir.trace {
            let p = *p as usize;
            if p >= n_ins {
                bad_pc = Some((p, "outside-program"));
                break;
            }
            if is_hi[p] {
                bad_pc = Some((p, "lddw-second-half"));
                break;
            }
            let ins = decode_at(&c.prog, p);
            if op_info(ins.opc).is_none() {
                bad_pc = Some((p, "non-instruction"));
                break;
            }
            if ins.dst > 10 || ins.src > 10 {
                bad_pc = Some((p, "register-index"));
                break;
            }
        }
        rep.add("pcs_checked", ir.trace.len() as u64);
        if let Some((p, what)) = bad_pc {
            rep.violation(&format!("C05:executed-{what}"), format!("the interpreter executed pc {p} ({what}) of a verifier-accepted program"), w());
            continue;
        }
        // the reference machine as a second observer: it must not see an illegal action either
        let rr = run_ref(&c, &bufs, &ir, C05_BUDGET, 0, Vec::new());
        if let Outcome::Illegal(what, pc) = rr.outcome {
            rep.violation(&format!("C05:verifier-hole:{what}"), format!("a verifier-accepted program performs an illegal action at pc {pc}: {what} (interpreter: {})", ir.ran.short()), w());
        }
    }
    // Only strings the default verifier accepts may ever be interpreted. A VM that holds a program
    // and on which a set_verifier() call just FAILED (the candidate refuses the loaded program, and
    // would accept anything else) still has the default verifier in force: strings it refuses must
    // be refused there too - if one is loaded it is run, to show what the interpreter does with it.
    {
        fn refuses_only_held(p: &[u8]) -> Result<(), rbpf::lib::Error> {
            if p == &HELD[..] { Err(rbpf::lib::Error::other("harness: refuses the loaded program")) } else { Ok(()) }
        }
        const HELD: [u8; 16] = [0xb7, 0, 0, 0, 1, 0, 0, 0, 0x95, 0, 0, 0, 0, 0, 0, 0];
        let m = if q { 30_000 } else { 600_000 } / a.nshards.max(1);
        for _ in 0..m {
            let (prog, origin) = hostile_prog(&mut rng);
            let kind = crate::engines::KINDS[rng.below(4) as usize];
            if accepted(kind, &prog) {
                continue;
            }
            rep.count("refused_strings_offered_after_failed_set_verifier");
            let r = sys::catch(|| -> Result<Option<String>, String> {
                let mut vm = Vm::new(kind, Some(&HELD), (0, 8))?;
                if vm.set_verifier(refuses_only_held).is_ok() {
                    return Err("set_verifier succeeded although the candidate refuses the loaded program".into());
                }
                match vm.set_program(&prog, (0, 8)) {
                    Err(_) => Ok(None),
                    Ok(()) => {
                        hooks::reset(C05_BUDGET, false);
                        let mut pkt = [0u8; 16];
                        let ran = std::panic::catch_unwind(std::panic::AssertUnwindSafe(|| vm.exec((pkt.as_mut_ptr(), if kind == Kind::NoData { 0 } else { 16 }), (std::ptr::null_mut(), 0))));
                        Ok(Some(match ran {
                            Ok(r) => format!("{r:?}").chars().take(80).collect(),
                            Err(_) => "the interpreter PANICKED on it".to_string(),
                        }))
                    }
                }
            });
            match r {
                Ok(Ok(None)) => {}
                Ok(Ok(Some(what))) => rep.violation("C05:unverified-program-loaded:after-failed-set_verifier", format!("a string the default verifier refuses was loaded on a VM whose set_verifier() call had failed, and interpreted: {what}"), json!({"kind": "verify-case", "prog": hex(&prog[..prog.len().min(512)]), "len": prog.len(), "origin": origin, "vm": kind.name()})),
                Ok(Err(e)) => rep.violation("C05:harness-scenario", e, json!({"kind": "verify-case", "prog": hex(&prog[..prog.len().min(512)]), "origin": origin})),
                Err(p) => rep.violation(&format!("C05:panic:{}:at-load", sys::panic_site(&p)), p, json!({"kind": "verify-case", "prog": hex(&prog[..prog.len().min(512)]), "origin": origin})),
            }
        }
        hooks::unlimited();
    }
    // "For every byte string the default verifier accepts": the verdict on a byte string must not
    // depend on what other threads are verifying at the same moment. Soup strings plus long programs
    // whose only defect is the last instruction, verified by 8 threads at once (scattered and in
    // lockstep on the same bytes); an acceptance that appears only under concurrency is the hole.
    if !cfg!(miri) {
        let mut items: Vec<Vec<u8>> = (0..3000).map(|_| genp::gen_soup(&mut rng)).collect();
        for k in 0..12usize {
            let n = 15_000 + 2_500 * k;
            let mut p: Vec<u8> = Vec::with_capacity(8 * (n + 1));
            for j in 0..n {
                p.extend_from_slice(&Insn::new(MOV64_IMM, (j % 10) as u8, 0, 0, (j as i32) ^ (k as i32) ^ 0x55).bytes());
            }
            p.extend_from_slice(&(if k % 2 == 0 { Insn::new(MOV64_IMM, 11, 0, 0, 0) } else { Insn::new(EXIT, 0, 0, 0, 0) }).bytes());
            let at = (k * 257) % (items.len() + 1);
            items.insert(at, p);
        }
        let (execs, bad) = crate::mon_par::par_same(&items, |p| sys::catch(|| accepted(Kind::Raw, p)).map_err(|m| sys::panic_site(&m)), if q { 2 } else { 6 });
        crate::mon_par::report_par(rep, "C05", "verifier-verdict", execs, bad, |i| json!({"prog": hex(&items[i][..items[i].len().min(512)]), "len": items[i].len()}));
    }
}

// ------------------------------------------------------------------------------------------------

pub fn run_c12(a: &Args, rep: &mut Report) {
    let mut rng = Rng::derive(a.seed, a.shard, 12);
    let q = a.tier == "quick";
    let nostd = !cfg!(any(feature = "std", feature = "stdlite"));
    let n = ((if q { 240_000.0 } else { 12_000_000.0 }) * a.scale) as u64 / a.nshards;
    let mut cases: Vec<(Case, &'static str)> = Vec::new();
    let mut par_cases: Vec<Case> = Vec::new();
    let mut k = 0u64;
    let mut tries = 0u64;
    let flush = |rep: &mut Report, cases: &mut Vec<(Case, &'static str)>| {
        if cases.is_empty() {
            return;
        }
        check_batch_c12(rep, cases, nostd);
        cases.clear();
    };
    while k < n && tries < 60 * n + 1000 {
        tries += 1;
        let c = match rng.below(4) {
            0 => {
                let (c, _) = genp::gen_struct(&mut rng, &genp::StructOpts::default());
                Some((c, "struct"))
            }
            _ => soup_case(&mut rng),
        };
        let Some((c, origin)) = c else { continue };
        k += 1;
        if par_cases.len() < 400 && k % 3 == 0 {
            par_cases.push(c.clone());
        }
        cases.push((c, origin));
        if cases.len() >= 256 {
            flush(rep, &mut cases);
        }
    }
    let par_only = a.variant == "par"; // the dedicated concurrent pass keeps its sequential part short
    // code-size sweep: straight-line programs of every length in a range, three instruction mixes
    // (3-, 4- and 7-byte x86 encodings), so that the emitted code size crosses every page boundary
    // residue (buffer sizing arithmetic)
    {
        let max_n: usize = if par_only { 0 } else if q { 4200 } else { 20000 };
        let mut n = 1 + a.shard as usize;
        while n <= max_n {
            let mix = n % 3;
            let mut v: Vec<Insn> = Vec::with_capacity(n + 1);
            v.push(Insn::new(MOV64_IMM, 0, 0, 0, 1));
            for k in 0..n {
                v.push(match (mix + k % 2) % 3 {
                    0 => Insn::new(ADD64_IMM, 0, 0, 0, 3),   // 48 81 c0 imm32 / 48 05 ...
                    1 => Insn::new(MOV64_REG, 6, 0, 0, 0),   // 3 bytes
                    _ => Insn::new(0xc7, 7, 0, 0, 1),        // arsh64 r7, 1: 4 bytes (r7 maps to r13)
                });
            }
            v.push(Insn::new(EXIT, 0, 0, 0, 0));
            let mut c = Case::new(Kind::NoData, encode_prog(&v), "size-sweep");
            c.class = "size-sweep".into();
            cases.push((c, "size-sweep"));
            if cases.len() >= 64 {
                flush(rep, &mut cases);
            }
            n += a.nshards as usize;
        }
        flush(rep, &mut cases);
        // every residue of the emitted code size modulo the page size: 3a + 4b = 4200 + s
        let mut sres = a.shard as usize;
        while sres < 4096 && !par_only {
            let total = 4200 + sres;
            let b = (0..3).find(|b| (total - 4 * b) % 3 == 0).unwrap();
            let na = (total - 4 * b) / 3;
            let mut v: Vec<Insn> = Vec::with_capacity(na + b + 2);
            v.push(Insn::new(MOV64_IMM, 0, 0, 0, 1));
            for _ in 0..na {
                v.push(Insn::new(MOV64_REG, 6, 0, 0, 0)); // 3 bytes of x86
            }
            for _ in 0..b {
                v.push(Insn::new(0xc7, 7, 0, 0, 1)); // 4 bytes
            }
            v.push(Insn::new(EXIT, 0, 0, 0, 0));
            // the prologue differs per VM kind: one kind per residue, rotating
            let kind = crate::engines::KINDS[(sres / a.nshards as usize + a.seed as usize) % 4];
            let mut c = Case::new(kind, encode_prog(&v), "size-residue-sweep");
            if kind != Kind::NoData {
                c.pkt = vec![1, 2, 3, 4, 5, 6, 7, 8];
            }
            if kind == Kind::Mbuff {
                c.mbuff = vec![0; 16];
            }
            cases.push((c, "size-residue-sweep"));
            if cases.len() >= 32 {
                flush(rep, &mut cases);
            }
            sres += a.nshards as usize;
        }
        flush(rep, &mut cases);
        // the same residue sweep for programs that contain what a sizing pass may treat specially:
        // local call sites (1-4; the frame adjustment is an instruction with an immediate), helper
        // calls, division by a register, conditional jumps, wide loads, packet loads
        let mut sres = a.shard as usize;
        let mut fi = 0usize;
        while sres < 4096 && !par_only && !cfg!(miri) {
            for feature in 0..6usize {
                let total = 4200 + sres;
                let b = (0..3).find(|b| (total - 4 * b) % 3 == 0).unwrap();
                let na = (total - 4 * b) / 3;
                let mut v: Vec<Insn> = Vec::with_capacity(na + b + 16);
                v.push(Insn::new(MOV64_IMM, 0, 0, 0, 1));
                v.push(Insn::new(MOV64_IMM, 6, 0, 0, 3));
                let ncalls = 1 + (sres / 16 + fi) % 4;
                let mut call_sites: Vec<usize> = Vec::new();
                match feature {
                    0 => {
                        for _ in 0..ncalls {
                            call_sites.push(v.len());
                            v.push(Insn::new(CALL, 0, 1, 0, 0)); // patched below
                        }
                    }
                    1 => v.push(Insn::new(CALL, 0, 0, 0, 1)),
                    2 => v.push(Insn::new(0x3f, 0, 6, 0, 0)), // div64 r0, r6
                    3 => v.push(Insn::new(JEQ_IMM, 0, 0, 1, 77)),
                    4 => {
                        v.push(Insn::new(LDDW, 7, 0, 0, -1));
                        v.push(Insn::new(0, 0, 0, 0, 0x1234));
                    }
                    _ => v.push(Insn::new(0x30, 0, 0, 0, 0)), // ldabsb 0
                }
                for _ in 0..na {
                    v.push(Insn::new(MOV64_REG, 8, 0, 0, 0)); // 3 bytes of x86
                }
                for _ in 0..b {
                    v.push(Insn::new(0xc7, 7, 0, 0, 1)); // 4 bytes
                }
                v.push(Insn::new(EXIT, 0, 0, 0, 0));
                let callee = v.len();
                if !call_sites.is_empty() {
                    v.push(Insn::new(MOV64_IMM, 0, 0, 0, 2));
                    v.push(Insn::new(EXIT, 0, 0, 0, 0));
                    for cs in call_sites {
                        v[cs].imm = (callee as i64 - (cs as i64 + 1)) as i32;
                    }
                }
                let kind = if feature == 5 { Kind::Raw } else { crate::engines::KINDS[(sres / a.nshards as usize + a.seed as usize + feature) % 4] };
                let mut c = Case::new(kind, encode_prog(&v), "size-residue-sweep");
                if kind != Kind::NoData {
                    c.pkt = vec![1, 2, 3, 4, 5, 6, 7, 8];
                }
                if kind == Kind::Mbuff {
                    c.mbuff = vec![0; 16];
                }
                if feature == 1 {
                    c.helpers = vec![(1, 0)];
                }
                if feature == 0 && fi % 3 == 1 {
                    c.calc = genp::CalcSpec::Const([8u16, 64, 120, 128, 136, 512][fi / 3 % 6]);
                }
                fi += 1;
                rep.count("size_residue_programs_with_calls_div_jumps");
                cases.push((c, "size-residue-sweep"));
                if cases.len() >= 32 {
                    flush(rep, &mut cases);
                }
            }
            sres += a.nshards as usize;
        }
        flush(rep, &mut cases);
        rep.set("size_sweep", format!("straight-line programs of 1..={max_n} instructions + one program per residue of the JIT code size modulo 4096 (sliced over shards)"));
    }
    // opcode-dense programs: N copies of one opcode with the register choices that give the longest
    // x86 encodings, for every supported opcode and N around every plausible sizing threshold: the
    // worst case of "native bytes per eBPF instruction" for whatever sizing rule the compiler uses
    {
        use crate::isa::{op_info, Shape};
        let ns: &[usize] = if q { &[1, 2, 7, 31, 63, 64, 65, 96, 120, 125, 126, 127, 128, 129, 255, 256, 257, 500, 1000] }
                           else { &[1, 2, 3, 5, 7, 15, 31, 32, 33, 63, 64, 65, 90, 96, 100, 110, 120, 124, 125, 126, 127, 128, 129, 130, 200, 255, 256, 257, 300, 500, 511, 512, 513, 1000, 2000, 4095, 4096, 4097, 10000] };
        let mut cell = 0u64;
        let mut nd = 0u64;
        for opc in 0..=255u8 {
            let Some(info) = op_info(opc) else { continue };
            if matches!(info.shape, Shape::TailCall) {
                continue;
            }
            for (ri, (d, sr)) in [(7u8, 8u8), (0, 0), (9, 4), (3, 3)].iter().enumerate() {
                for &n in ns {
                    cell += 1;
                    if cell % a.nshards != a.shard % a.nshards || (q && ri >= 2 && n > 130) {
                        continue;
                    }
                    let one: Vec<Insn> = match info.shape {
                        Shape::AluImm => vec![Insn::new(opc, *d, 0, 0, if ri % 2 == 0 { 0x7fff_fff1 } else { 1 })],
                        Shape::AluReg => vec![Insn::new(opc, *d, *sr, 0, 0)],
                        Shape::Unary => vec![Insn::new(opc, *d, 0, 0, 0)],
                        Shape::Endian => vec![Insn::new(opc, *d, 0, 0, [16, 32, 64][ri % 3])],
                        Shape::LdAbs => vec![Insn::new(opc, 0, 0, 0, 0x1000)],
                        Shape::LdInd => vec![Insn::new(opc, 0, *sr, 0, 0x1000)],
                        Shape::LdReg => vec![Insn::new(opc, *d, 10, if ri % 2 == 0 { -256 } else { -8 }, 0)],
                        Shape::StImm => vec![Insn::new(opc, 10, 0, if ri % 2 == 0 { -256 } else { -8 }, -2)],
                        Shape::StReg | Shape::Xadd => vec![Insn::new(opc, 10, *sr, if ri % 2 == 0 { -256 } else { -8 }, 0)],
                        Shape::Ja => vec![Insn::new(opc, 0, 0, 0, 0)],
                        Shape::JmpImm => vec![Insn::new(opc, *d, 0, 0, -7)],
                        Shape::JmpReg => vec![Insn::new(opc, *d, *sr, 0, 0)],
                        Shape::Call => vec![if ri % 2 == 0 { Insn::new(opc, 0, 0, 0, 1) } else { Insn::new(opc, 0, 1, 0, 0) }],
                        Shape::Exit => vec![Insn::new(opc, 0, 0, 0, 0)],
                        Shape::Lddw => vec![Insn::new(opc, *d, 0, 0, -1), Insn::new(0, 0, 0, 0, 0x7fff_ffff)],
                        Shape::TailCall => unreachable!(),
                    };
                    let mut v: Vec<Insn> = Vec::with_capacity(n * one.len() + 6);
                    for r in 0..10u8 {
                        v.push(Insn::new(MOV64_IMM, r, 0, 0, 2 + r as i32));
                    }
                    for _ in 0..n {
                        v.extend(one.iter().cloned());
                    }
                    v.push(Insn::new(EXIT, 0, 0, 0, 0));
                    let kind = crate::engines::KINDS[(cell as usize + a.seed as usize) % 4];
                    let mut c = Case::new(kind, encode_prog(&v), "opcode-dense");
                    c.class = "opcode-dense".into();
                    if kind != Kind::NoData {
                        c.pkt = vec![1, 2, 3, 4, 5, 6, 7, 8];
                    }
                    if kind == Kind::Mbuff {
                        c.mbuff = vec![0; 16];
                    }
                    if matches!(info.shape, Shape::Call) && ri % 2 == 0 {
                        c.helpers = vec![(1, 0)];
                    }
                    nd += 1;
                    if n >= 120 && n <= 1000 && nd % 5 == 0 && par_cases.len() < 900 {
                        par_cases.push(c.clone());
                    }
                    cases.push((c, "opcode-dense"));
                    if cases.len() >= 64 {
                        flush(rep, &mut cases);
                    }
                }
            }
        }
        flush(rep, &mut cases);
        rep.add("opcode_dense_programs", nd);
    }
    // long programs (JIT up to the limit, Cranelift up to 20k/100k)
    let lens: &[usize] = if par_only { &[] } else if q { &[4_000, 33_000, 70_000] } else { &[4_000, 20_000, 33_000, 70_000, 131_100, 500_000, 1_000_000] };
    for (i, len) in lens.iter().enumerate() {
        for v in 0..6u64 {
            if (i as u64 * 6 + v) % a.nshards != a.shard % a.nshards {
                continue;
            }
            let c = genp::gen_long(&mut rng, *len, v);
            rep.set("long_cells", format!("{len}:{}", c.class));
            cases.push((c, "long"));
            flush(rep, &mut cases);
        }
    }
    flush(rep, &mut cases);
    // ladders of conditional jumps (`jeq r1, K, +1; mov r0, K` x N): N not-yet-visited branch targets
    // in a row - any per-branch recursion or per-branch table in a compiler grows with N
    if !par_only && !cfg!(miri) {
        let ns: &[usize] = if q { &[3_000, 20_000, 100_000, 450_000] } else { &[3_000, 8_000, 20_000, 40_000, 100_000, 250_000, 450_000, 499_990] };
        for (i, n) in ns.iter().enumerate() {
            for shape in 0..2usize {
                if (i * 2 + shape) as u64 % a.nshards != a.shard % a.nshards {
                    continue;
                }
                let mut v: Vec<Insn> = Vec::with_capacity(2 * n + 3);
                v.push(Insn::new(MOV64_IMM, 0, 0, 0, 0));
                v.push(Insn::new(MOV64_IMM, 1, 0, 0, (*n / 2) as i32));
                for k in 0..*n {
                    // shape 0: each branch skips one instruction; shape 1: each branch jumps to the
                    // NEXT branch's fall-through (nested targets)
                    v.push(Insn::new(if shape == 0 { JEQ_IMM } else { JNE_IMM }, 1, 0, if shape == 0 { 1 } else { 2 }, k as i32));
                    v.push(Insn::new(ADD64_IMM, 0, 0, 0, 1));
                }
                v.push(Insn::new(ADD64_IMM, 0, 0, 0, 0));
                v.push(Insn::new(EXIT, 0, 0, 0, 0));
                let mut c = Case::new(Kind::NoData, encode_prog(&v), "cond-ladder");
                c.class = "cond-ladder".into();
                rep.set("long_cells", format!("cond-ladder:{n}:{shape}"));
                cases.push((c, "long"));
                flush(rep, &mut cases);
            }
        }
    }
    // programs of mixed sizes (native code from a few bytes to several pages) compiled and dropped
    // by 8 threads at once, each on its own VM: same Ok/Err as alone, no panic, no crash
    if !cfg!(miri) && !par_cases.is_empty() && crate::mon_par::par_mult() > 0 {
        let big_cases: Vec<Case> = (0..40usize)
            .map(|k| {
                // 110..900 instructions with long encodings (division by a register: ~40 bytes of
                // x86 each): one to nine pages of code, compiled in microseconds
                let n = 110 + (k * 37 + a.shard as usize * 53) % 800;
                let mut v: Vec<Insn> = Vec::with_capacity(n + 3);
                v.push(Insn::new(MOV64_IMM, 0, 0, 0, 0x7fff_fff1));
                v.push(Insn::new(MOV64_IMM, 6, 0, 0, 1 + (k % 3) as i32));
                for j in 0..n {
                    v.push(match (j + k) % 4 {
                        0 => Insn::new(0x3f, 0, 6, 0, 0), // div64 r0, r6
                        1 => Insn::new(ADD64_IMM, 0, 0, 0, 0x1234_5601),
                        2 => Insn::new(0x9f, 7, 6, 0, 0), // mod64 r7, r6
                        _ => Insn::new(0x3c, 0, 6, 0, 0), // div32 r0, r6
                    });
                }
                v.push(Insn::new(EXIT, 0, 0, 0, 0));
                let mut c = Case::new(Kind::NoData, encode_prog(&v), "multi-page");
                c.class = "multi-page".into();
                c
            })
            .collect();
        let ends = sys::run_batch(1, 600, 600, |_i, out| {
            let f = |c: &Case| -> (u8, u8) {
                let one = |cl: bool| -> u8 {
                    let r = sys::catch(|| -> Result<(), String> {
                        let mut vm = build_vm(c, Family::Plain)?;
                        if cl {
                            #[cfg(feature = "std")]
                            vm.cl_compile()?;
                        } else {
                            #[cfg(not(any(feature = "std", feature = "stdlite")))]
                            {
                                let need = (c.prog.len() / 8 * 64 + 8192 + 4095) & !4095;
                                let _ = vm.set_jit_exec_memory(crate::exec::exec_memory(need));
                            }
                            vm.jit_compile()?;
                        }
                        Ok(())
                    });
                    match r {
                        Ok(Ok(())) => 0,
                        Ok(Err(_)) => 1,
                        Err(_) => 2,
                    }
                };
                (one(false), if cfg!(feature = "std") && c.prog.len() <= 8 * 2000 { one(true) } else { 9 })
            };
            let (execs, bad) = crate::mon_par::par_same(&par_cases, f, 2);
            // a second session of multi-page programs only, many rounds: the threads spend all their
            // time acquiring, filling and releasing large code regions of different sizes
            // (tight loop: the same VM is re-compiled 100 times per visit, so that the threads spend
            // most of their time acquiring and releasing code regions, then the code is run once)
            let tight = |c: &Case| -> (u8, u8) {
                let r = sys::catch(|| -> Result<u8, String> {
                    let mut vm = build_vm(c, Family::Plain)?;
                    let mut bad = 0u8;
                    for _ in 0..100 {
                        #[cfg(not(any(feature = "std", feature = "stdlite")))]
                        {
                            let need = (c.prog.len() / 8 * 64 + 8192 + 4095) & !4095;
                            let _ = vm.set_jit_exec_memory(crate::exec::exec_memory(need));
                        }
                        if vm.jit_compile().is_err() {
                            bad = bad.saturating_add(1);
                        }
                    }
                    let none = (std::ptr::null_mut(), 0);
                    let v = unsafe { vm.exec_jit(none, none) }?;
                    Ok(bad.saturating_add((v % 251) as u8))
                });
                match r {
                    Ok(Ok(x)) => (0, x),
                    Ok(Err(_)) => (1, 0),
                    Err(_) => (2, 0),
                }
            };
            let (execs2, bad2) = crate::mon_par::par_same(&big_cases, tight, if q { 3 } else { 12 });
            let execs2 = execs2 * 100;
            let execs = execs + execs2;
            let nb = bad.len();
            let bad: Vec<(usize, String)> = bad.into_iter().chain(bad2.into_iter().map(|(i, d)| (par_cases.len() + i, d))).collect();
            let _ = nb;
            out.extend_from_slice(&execs.to_le_bytes());
            for (i, d) in bad.iter().take(5) {
                let c = if *i < par_cases.len() { &par_cases[*i] } else { &big_cases[*i - par_cases.len()] };
                out.extend_from_slice(format!("program #{i} ({} instructions, {}): {} [0 = Ok, 1 = Err, 2 = panic; (jit, cranelift)]\n", c.prog.len() / 8, c.class, d).as_bytes());
            }
        });
        rep.set("concurrent_workloads", "compile");
        match &ends[0] {
            CaseEnd::Done(b) if b.len() >= 8 => {
                rep.add("concurrent_evaluations", u64::from_le_bytes(b[0..8].try_into().unwrap()));
                let msg = String::from_utf8_lossy(&b[8..]).to_string();
                if let Some(first) = msg.lines().next() {
                    rep.violation("C12:concurrent:compile-differs-from-sequential", format!("8 threads compiling, each its own VM: {first}"), json!({"kind": "concurrent-session", "what": "compile", "deviations": msg.lines().take(5).collect::<Vec<_>>()}));
                }
            }
            CaseEnd::Died(sg, _) => rep.violation(&format!("C12:concurrent:signal-{}", sys::signame(*sg)), format!("8 threads compiling verified programs: killed by {}", sys::signame(*sg)), json!({"kind": "concurrent-session", "what": "compile"})),
            CaseEnd::Done(_) => rep.inconclusive("concurrent compile: short record".into()),
            CaseEnd::CpuTimeout => rep.inconclusive("concurrent compile: cpu limit".into()),
            CaseEnd::Inconclusive(x) => rep.inconclusive(format!("concurrent compile: {x}")),
        }
    }
}

fn check_batch_c12(rep: &mut Report, cases: &[(Case, &'static str)], nostd: bool) {
    // Each case: in a child, compile with JIT (and Cranelift when built) twice under catch_unwind.
    // Record: per engine (status1, status2, same_result flag).
    let engines: Vec<Engine> = if cfg!(feature = "std") { vec![Engine::Jit, Engine::Cranelift] } else { vec![Engine::Jit] };
    let pres: Vec<Pre> = cases.iter().map(|(c, _)| pre_run(c.clone(), String::new(), 200_000)).collect();
    // (CPU-time limits: 120 s for a batch, 400 s for a case re-run alone - Cranelift needs tens of
    // seconds for some long programs on a slow or busy machine; only beyond that is a compilation
    // called divergent)
    let ends = sys::run_batch(cases.len(), 120, 400, |i, out| {
        let (c, _) = &cases[i];
        let p = &pres[i];
        let runnable = matches!(p.rr.outcome, Outcome::Value(_)) && matches!(p.ir.ran, Ran::Ok(_)) && !p.rr.neg_ldabs;
        for e in &engines {
            if *e == Engine::Cranelift && (c.prog.len() / 8 > 100_000 || c.class == "size-residue-sweep" || (c.class == "cond-ladder" && c.prog.len() / 8 > 7_000)) {
                out.extend_from_slice(&[9, 9, 9]);
                continue;
            }
            let mut st = [0u8; 2];
            let mut vals = [0u64; 2];
            let mut codes: Vec<Vec<u8>> = Vec::new();
            for round in 0..2 {
                let r = sys::catch(|| -> Result<Option<u64>, String> {
                    let mut vm = build_vm(c, Family::Plain)?;
                    #[cfg(not(any(feature = "std", feature = "stdlite")))]
                    let code_view: (*const u8, usize);
                    #[cfg(not(any(feature = "std", feature = "stdlite")))]
                    {
                        // exactly-sized executable buffer ending at a guard page: grow until it fits
                        let mut pages = 1usize;
                        loop {
                            let g = Box::leak(Box::new(crate::sys::GuardBuf::new(pages * 4096, true, false)));
                            unsafe { libc::mprotect(g.addr() as *mut _, pages * 4096, libc::PROT_READ | libc::PROT_WRITE | libc::PROT_EXEC) };
                            g.as_mut().fill(0xcc);
                            let _ = vm.set_jit_exec_memory(g.as_static_mut());
                            match vm.jit_compile() {
                                Ok(()) => {
                                    code_view = (g.addr() as *const u8, pages * 4096);
                                    break;
                                }
                                Err(e) if e.contains("too small") && pages < 16384 => pages *= 2,
                                Err(e) => return Err(e),
                            }
                        }
                        codes.push(unsafe { std::slice::from_raw_parts(code_view.0, code_view.1).to_vec() });
                    }
                    #[cfg(any(feature = "std", feature = "stdlite"))]
                    match e {
                        Engine::Jit => vm.jit_compile()?,
                        #[cfg(feature = "std")]
                        Engine::Cranelift => vm.cl_compile()?,
                        _ => {}
                    }
                    if runnable && !(*e == Engine::Cranelift && has_local_call(&c.prog)) {
                        p.bufs.reset(c);
                        hooks::unlimited();
                        let v = unsafe {
                            match e {
                                Engine::Jit => vm.exec_jit(p.bufs.pkt_raw(), p.bufs.mbuff_raw())?,
                                #[cfg(feature = "std")]
                                Engine::Cranelift => vm.exec_cl(p.bufs.pkt_raw(), p.bufs.mbuff_raw())?,
                                _ => 0,
                            }
                        };
                        Ok(Some(v))
                    } else {
                        Ok(None)
                    }
                });
                match r {
                    Ok(Ok(v)) => {
                        st[round] = 0;
                        vals[round] = v.map(|x| x ^ 0x5555).unwrap_or(0);
                    }
                    Ok(Err(_)) => st[round] = 1,
                    Err(m) => {
                        st[round] = 2;
                        // keep the panic message of the first round
                        if round == 0 {
                            out.push(0xff);
                            let b = m.as_bytes();
                            out.push(b.len().min(200) as u8);
                            out.extend_from_slice(&b[..b.len().min(200)]);
                        }
                    }
                }
            }
            let same = st[0] == st[1] && vals[0] == vals[1] && (codes.len() < 2 || codes[0] == codes[1]);
            out.extend_from_slice(&[st[0], st[1], same as u8]);
        }
    });
    for (((c, origin), e), p) in cases.iter().zip(ends.iter()).zip(pres.iter()) {
        rep.case(Some(c.hash()));
        rep.set("origins", *origin);
        rep.max("max_program_len", (c.prog.len() / 8) as u64);
        let w = || json!({"kind": "compile-case", "case": c.to_json(), "nostd": nostd});
        let _ = p;
        match e {
            CaseEnd::Died(s, _) => rep.violation(&format!("C12:signal-{}:{}", sys::signame(*s), origin), format!("compiling (or running a clean program) was killed by {}", sys::signame(*s)), w()),
            CaseEnd::CpuTimeout => rep.violation("C12:compile-diverged", "compilation did not finish within the CPU-time limit".into(), w()),
            CaseEnd::Inconclusive(s) => rep.inconclusive(s.clone()),
            CaseEnd::Done(b) => {
                let mut i = 0;
                let mut ei = 0;
                let mut panic_msg = String::new();
                while i < b.len() {
                    if b[i] == 0xff {
                        let l = b[i + 1] as usize;
                        panic_msg = String::from_utf8_lossy(&b[i + 2..i + 2 + l]).to_string();
                        i += 2 + l;
                        continue;
                    }
                    let (s0, s1, same) = (b[i], b[i + 1], b[i + 2]);
                    i += 3;
                    let ename = engines.get(ei).map(|e| e.name()).unwrap_or("?");
                    ei += 1;
                    if s0 == 9 {
                        rep.count("cranelift_skipped_too_long");
                        continue;
                    }
                    rep.count(&format!("{ename}_{}", match s0 { 0 => "compiled", 1 => "refused", _ => "panicked" }));
                    if s0 == 2 || s1 == 2 {
                        rep.violation(&format!("C12:{ename}:panic:{}", sys::panic_site(&panic_msg)), format!("{ename} compilation panicked: {panic_msg}"), w());
                    } else if same == 0 {
                        rep.violation(&format!("C12:{ename}:not-repeatable"), format!("two compilations of the same program differ (status {s0}/{s1}, result or code bytes)"), w());
                    }
                    if rep.want_sample() && rep.get("evaluations") % 9973 == 1 {
                        rep.sample(json!({"prog": hex(&c.prog[..c.prog.len().min(96)]), "engine": ename, "status": s0, "origin": origin}));
                    }
                }
            }
        }
    }
    let _ = fnv;
}
