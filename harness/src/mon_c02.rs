//! C02: the interpreter confines every load, store and atomic add to the program's regions.
//! Exhaustive boundary sweep; every case runs in a forked child with buffers against PROT_NONE
//! pages; the oracle is the containment predicate on the real addresses.

use crate::engines::{hooks, Kind, Vm};
use crate::isa::*;
use crate::report::Report;
use crate::sys::{self, CaseEnd, GuardBuf};
use crate::util::{hex, Rng};
use crate::Args;
use serde_json::json;
use std::ops::Range;

#[derive(Clone, Copy, Debug, PartialEq, Eq)]
enum Acc {
    Ldx,
    St,
    Stx,
    Xadd,
    LdAbs,
    LdInd,
}

#[derive(Clone, Debug)]
struct AccCase {
    acc: Acc,
    width: u8,
    /// absolute target address, or r10-relative delta for the stack
    target: Target,
    /// how the effective address is split between base register and offset field
    off: i16,
    tag: String,
    /// precede the access by a VALID access through the same base register, offset and width
    /// (then re-point the register with a plain mov): a bounds check must not be reused
    warm: bool,
    /// how the base register is re-pointed at the target after the valid ("warm") access:
    /// 0 = mov from another register, 1 = lddw, 2 = reloaded from a stack slot, 3 = return value of
    /// a helper call (base register r0), 4 = result of `ldabsb 0` (base register r0; the target is
    /// then pkt[0] + off), 5 = xor with itself then add. A bounds check remembered for a register
    /// must be forgotten whichever instruction rewrites the register.
    repoint: u8,
    /// width of the warm access: 0 = same as the access under test, else this width (a check
    /// remembered for a wider access must not cover a later access elsewhere)
    warm_width: u8,
    /// the warm access is made this many more times, the base register re-derived from r10 each
    /// time (thousands of checked accesses, tens of thousands of values, in one straight-line block
    /// before the access under test)
    warm_reps: u32,
    /// load the program through new(None) + register ranges + set_program instead of new(prog)
    via_set_program: bool,
    /// stack targets only: 0 = base is a computed copy of r10 (mov + add), 1 = r10 itself is the
    /// base register and the whole delta sits in the offset field, 2 = an unmodified copy of r10
    direct: u8,
    /// value of the source-register field: for `stx` the register stored (4 = a known constant,
    /// 10 = the frame pointer, whose value the monitor does not predict); for `st imm`, where the
    /// field is unused, a stray value the instruction must ignore
    src_field: u8,
    /// registers playing the roles the program text below gives to r2 (computed base), r4 (stored
    /// constant) and, for ldx, r0 (destination; the value is then moved to r0)
    regs: (u8, u8, u8),
}

#[derive(Clone, Copy, Debug)]
enum Target {
    Abs(u64),
    StackRel(i64),
    /// fixed-metadata VM: relative to the internal buffer r1 points to (16 bytes for offsets (0, 8))
    R1Rel(i64),
}

struct Layout {
    kind: Kind,
    pkt: Option<GuardBuf>,
    mbuff: Option<GuardBuf>,
    extra: GuardBuf,
    ranges: Vec<Range<u64>>,
    /// further registered ranges at addresses nothing is mapped at and no target goes to: they only
    /// make the VM's collection of ranges large (hundreds of registrations on one VM); half are
    /// registered before the real ranges, half after
    decoys: Vec<Range<u64>>,
    /// adjacent layouts: packet and metadata buffer are windows into this one mapping
    _parent: Option<GuardBuf>,
    desc: String,
}

fn opcode_for(acc: Acc, width: u8) -> u8 {
    let sz = match width {
        1 => 0x10,
        2 => 0x08,
        4 => 0x00,
        _ => 0x18,
    };
    match acc {
        Acc::Ldx => 0x61 | sz,
        Acc::St => 0x62 | sz,
        Acc::Stx => 0x63 | sz,
        Acc::Xadd => 0xc3 | sz,
        Acc::LdAbs => 0x20 | sz,
        Acc::LdInd => 0x40 | sz,
    }
}

const STORE_VAL: u64 = 0x1122_3344_5566_7788;
/// helper registered on every VM of the sweep: returns its first argument
const RET_A1_ID: u32 = 77;
fn ret_a1(a: u64, _b: u64, _c: u64, _d: u64, _e: u64) -> u64 {
    a
}
const ST_IMM: i32 = 0x5a6b7c8d;

fn build_prog(c: &AccCase, pkt_base: u64) -> Vec<u8> {
    let mut v: Vec<Insn> = Vec::new();
    let opc = opcode_for(c.acc, c.width);
    match c.acc {
        Acc::LdAbs => {
            // address = pkt_base + imm (imm zero-extended): only reachable targets are generated
            let Target::Abs(t) = c.target else { unreachable!() };
            v.push(Insn::new(opc, 0, 0, 0, t.wrapping_sub(pkt_base) as u32 as i32));
        }
        Acc::LdInd => {
            let Target::Abs(t) = c.target else { unreachable!() };
            let imm = c.off as i32 as u32; // reuse `off` as the immediate part (non-negative)
            let src = t.wrapping_sub(pkt_base).wrapping_sub(imm as u64);
            v.push(Insn::new(LDDW, 3, 0, 0, src as u32 as i32));
            v.push(Insn::new(0, 0, 0, 0, (src >> 32) as u32 as i32));
            v.push(Insn::new(opc, 0, 3, 0, imm as i32));
        }
        _ => {
            // base register r2 = target - off
            match c.target {
                Target::Abs(_) if c.direct == 3 => {} // r1 (context pointer) itself is the base
                Target::R1Rel(_) => {}
                Target::Abs(t) => {
                    let b = t.wrapping_sub(c.off as i64 as u64);
                    if c.warm && c.acc != Acc::Xadd {
                        // valid access of the same shape on the stack first: r2 = r10 - 64 - off
                        v.push(Insn::new(STDW, 10, 0, -64, 0x5151));
                        v.push(Insn::new(LDDW, 5, 0, 0, b as u32 as i32));
                        v.push(Insn::new(0, 0, 0, 0, (b >> 32) as u32 as i32));
                        if c.repoint == 2 {
                            v.push(Insn::new(STXDW, 10, 5, -80, 0));
                        }
                        v.push(Insn::new(MOV64_REG, 2, 10, 0, 0));
                        v.push(Insn::new(ADD64_IMM, 2, 0, 0, -64 - c.off as i32));
                        let opc = opcode_for(c.acc, if c.warm_width != 0 { c.warm_width } else { c.width });
                        match c.acc {
                            Acc::Ldx => v.push(Insn::new(opc, 0, 2, c.off, 0)),
                            Acc::St => v.push(Insn::new(opc, 2, 0, c.off, ST_IMM)),
                            _ => {
                                v.push(Insn::new(LDDW, 4, 0, 0, STORE_VAL as u32 as i32));
                                v.push(Insn::new(0, 0, 0, 0, (STORE_VAL >> 32) as u32 as i32));
                                v.push(Insn::new(opc, 2, 4, c.off, 0));
                            }
                        }
                        // (irregular spacing: a no-op `add r5, 0` after about half of the repetitions, so
                        // that the numbering of intermediate values inside a compiler does not advance
                        // by the same amount per repetition)
                        let mut lcg = (c.warm_reps as u64).wrapping_mul(0x9E37_79B9_7F4A_7C15) ^ (c.off as u16 as u64) ^ ((c.width as u64) << 40);
                        for _ in 0..c.warm_reps {
                            lcg = lcg.wrapping_mul(6364136223846793005).wrapping_add(1442695040888963407);
                            for _ in 0..[0usize, 1, 0, 2][(lcg >> 33) as usize & 3] {
                                v.push(Insn::new(ADD64_IMM, 5, 0, 0, 0));
                            }
                            v.push(Insn::new(MOV64_REG, 2, 10, 0, 0));
                            v.push(Insn::new(ADD64_IMM, 2, 0, 0, -64 - c.off as i32));
                            match c.acc {
                                Acc::Ldx => v.push(Insn::new(opc, 0, 2, c.off, 0)),
                                Acc::St => v.push(Insn::new(opc, 2, 0, c.off, ST_IMM)),
                                _ => v.push(Insn::new(opc, 2, 4, c.off, 0)),
                            }
                        }
                        match c.repoint {
                            1 => {
                                v.push(Insn::new(LDDW, 2, 0, 0, b as u32 as i32));
                                v.push(Insn::new(0, 0, 0, 0, (b >> 32) as u32 as i32));
                            }
                            2 => v.push(Insn::new(LDXDW, 2, 10, -80, 0)),
                            3 => {
                                // (the base register role is played by r0: see `regs`)
                                v.push(Insn::new(MOV64_REG, 1, 5, 0, 0));
                                v.push(Insn::new(CALL, 0, 0, 0, RET_A1_ID as i32));
                            }
                            4 => v.push(Insn::new(0x30, 0, 0, 0, 0)), // ldabsb 0
                            5 => {
                                v.push(Insn::new(XOR64_REG, 2, 2, 0, 0));
                                v.push(Insn::new(ADD64_REG, 2, 5, 0, 0));
                            }
                            _ => v.push(Insn::new(MOV64_REG, 2, 5, 0, 0)),
                        }
                    } else {
                        v.push(Insn::new(LDDW, 2, 0, 0, b as u32 as i32));
                        v.push(Insn::new(0, 0, 0, 0, (b >> 32) as u32 as i32));
                    }
                }
                Target::StackRel(d) => {
                    if c.direct != 1 {
                        v.push(Insn::new(MOV64_REG, 2, 10, 0, 0));
                    }
                    if c.direct == 0 {
                        v.push(Insn::new(ADD64_IMM, 2, 0, 0, (d - c.off as i64) as i32));
                    }
                    // initialise the 32 bytes at both ends of the stack so that loads are defined
                    for k in [8i16, 16, 24, 32, 512, 504, 496, 488] {
                        v.push(Insn::new(STDW, 10, 0, -k, 0x0badcafe));
                    }
                }
            }
            let base: u8 = match c.direct {
                1 => 10,
                3 => 1,
                _ => 2,
            };
            match c.acc {
                Acc::Ldx => {
                    v.push(Insn::new(opc, c.regs.2, base, c.off, 0));
                    if c.regs.2 != 0 {
                        v.push(Insn::new(MOV64_REG, 0, c.regs.2, 0, 0));
                    }
                }
                Acc::St => v.push(Insn::new(opc, base, c.src_field, c.off, ST_IMM)),
                Acc::Stx | Acc::Xadd => {
                    v.push(Insn::new(LDDW, 4, 0, 0, STORE_VAL as u32 as i32));
                    v.push(Insn::new(0, 0, 0, 0, (STORE_VAL >> 32) as u32 as i32));
                    v.push(Insn::new(opc, base, if c.acc == Acc::Stx { c.src_field } else { 4 }, c.off, 0));
                }
                _ => unreachable!(),
            }
            if c.acc != Acc::Ldx {
                if let Target::StackRel(_) = c.target {
                    // fold the 64 initialised bytes at both ends of the stack into r0
                    v.push(Insn::new(MOV64_IMM, 0, 0, 0, 0));
                    for k in [8i16, 16, 24, 32, 512, 504, 496, 488] {
                        v.push(Insn::new(LDXDW, 5, 10, -k, 0));
                        v.push(Insn::new(MUL64_IMM, 0, 0, 0, 0x01000193));
                        v.push(Insn::new(XOR64_REG, 0, 5, 0, 0));
                    }
                } else {
                    v.push(Insn::new(MOV64_IMM, 0, 0, 0, 7));
                }
            }
        }
    }
    v.push(Insn::new(EXIT, 0, 0, 0, 0));
    // register roles: r2 -> regs.0, r4 -> regs.1 (lddw second halves and r0/r1/r5/r10 untouched)
    if !matches!(c.acc, Acc::LdAbs | Acc::LdInd) && (c.regs.0 != 2 || c.regs.1 != 4) {
        let map = |r: u8| if r == 2 { c.regs.0 } else if r == 4 { c.regs.1 } else { r };
        let mut second_half = false;
        for i in v.iter_mut() {
            if second_half {
                second_half = false;
                continue;
            }
            second_half = i.opc == LDDW;
            i.dst = map(i.dst);
            i.src = map(i.src);
        }
    }
    encode_prog(&v)
}

/// expected r0 for a performed stack store: model of the fold above
fn stack_fold(stack: &[u8; 512]) -> u64 {
    let mut r0 = 0u64;
    for k in [8usize, 16, 24, 32, 512, 504, 496, 488] {
        let v = u64::from_le_bytes(stack[512 - k..512 - k + 8].try_into().unwrap());
        r0 = r0.wrapping_mul(0x01000193) ^ v;
    }
    r0
}

fn make_layout(rng: &mut Rng, cl: bool) -> Layout {
    let kind = *rng.pick(&[Kind::Mbuff, Kind::Mbuff, Kind::Raw, Kind::Raw, Kind::Raw, Kind::Fixed, Kind::Fixed, Kind::NoData]);
    // one layout in ten has a packet beyond 64 KiB (offsets and lengths that no longer fit 16 bits;
    // ld_abs immediates >= 65536), one metadata VM in ten a metadata buffer beyond a page / 64 KiB
    let big = !cfg!(miri) && rng.chance(1, 10);
    let plen = if kind == Kind::NoData {
        0
    } else if big {
        *rng.pick(&[65535usize, 65536, 65537, 65536 + 4096 + 3, (1 << 20) + 5])
    } else {
        *rng.pick(&[0usize, 1, 7, 8, 9, 64, 4096])
    };
    let end_aligned = rng.chance(1, 2);
    // one metadata-VM layout in three: the two buffers are ADJACENT (what `split_at_mut` gives a
    // caller) - metadata buffer directly below or directly above the packet
    let adjacent = if kind == Kind::Mbuff && plen > 0 && plen <= 4096 && !cfg!(miri) && rng.chance(1, 3) { 1 + rng.below(2) as u8 } else { 0 };
    let mut parent = None;
    let (pkt, mbuff) = if adjacent != 0 {
        let ml = *rng.pick(&[1usize, 8, 16, 32]);
        let p = GuardBuf::new(plen + ml, end_aligned, cl);
        let (po, mo) = if adjacent == 1 { (ml, 0) } else { (0, plen) };
        let r = (Some(GuardBuf::view(&p, po, plen)), Some(GuardBuf::view(&p, mo, ml)));
        parent = Some(p);
        r
    } else {
        let pkt = if plen == 0 { None } else { Some(GuardBuf::new(plen, end_aligned, cl)) };
        let mbuff = if kind == Kind::Mbuff {
            let ml = if !cfg!(miri) && rng.chance(1, 10) { *rng.pick(&[4096usize, 65537]) } else { *rng.pick(&[1usize, 8, 32]) };
            Some(GuardBuf::new(ml, !end_aligned, cl))
        } else {
            None
        };
        (pkt, mbuff)
    };
    let extra = GuardBuf::new_centered(64, 256, cl);
    let e = extra.addr();
    let mut ranges: Vec<Range<u64>> = Vec::new();
    let rdesc;
    match if cl { 0 } else { rng.below(12) } {
        0 => rdesc = "no-range",
        1 => {
            ranges.push(e..e + 64);
            rdesc = "one-range"
        }
        2 => {
            ranges.push(e..e + 24);
            ranges.push(e + 24..e + 64);
            rdesc = "two-adjacent"
        }
        3 => {
            ranges.push(e..e + 16);
            ranges.push(e + 40..e + 64);
            rdesc = "two-disjoint"
        }
        4 => {
            ranges.push(e + 8..e + 8);
            rdesc = "empty-range"
        }
        7 => {
            // a registered range that CONTAINS the packet (and mapped bytes after it): an access
            // running past the packet end but inside the range is allowed
            match &pkt {
                Some(p) if p.slack_after() >= 40 => {
                    ranges.push(p.addr()..p.addr() + p.len() as u64 + 32);
                    rdesc = "range-contains-packet"
                }
                _ => rdesc = "no-range",
            }
        }
        8 => {
            // overlapping and duplicated ranges
            ranges.push(e..e + 40);
            ranges.push(e + 24..e + 64);
            ranges.push(e + 24..e + 64);
            rdesc = "overlapping-ranges"
        }
        9 => {
            // a small range nested inside a large one, registered in either order: an access in
            // the outer range beyond the inner one is allowed
            let (outer, inner) = (e..e + 64, e + 16..e + 24);
            if rng.chance(1, 2) {
                ranges.push(outer);
                ranges.push(inner);
            } else {
                ranges.push(inner);
                ranges.push(outer);
            }
            rdesc = "nested-ranges"
        }
        10 => {
            // ranges sharing their start (short and long, either order) or their end
            let mut v = vec![e..e + 8, e..e + 40, e + 48..e + 64, e + 56..e + 64];
            if rng.chance(1, 2) {
                v.reverse();
            }
            ranges.extend(v);
            rdesc = "same-start-or-end-ranges"
        }
        11 => {
            // many small ranges with 1-byte gaps, plus one that spans three of them
            for k in 0..8u64 {
                ranges.push(e + 8 * k..e + 8 * k + 7);
            }
            ranges.push(e + 8..e + 31);
            rdesc = "many-ranges"
        }
        5 => {
            ranges.push(e..e + 1);
            ranges.push(e + 32..e + 36);
            rdesc = "tiny-ranges"
        }
        _ => {
            // a range overlapping the tail of the packet (inside it)
            if let Some(p) = &pkt {
                if p.len() >= 8 {
                    ranges.push(p.addr() + p.len() as u64 - 4..p.addr() + p.len() as u64);
                }
            }
            ranges.push(e + 16..e + 48);
            rdesc = "overlap-packet-tail"
        }
    }
    // one interpreter layout in twelve registers hundreds of other ranges as well
    let mut decoys: Vec<Range<u64>> = Vec::new();
    if !cl && !cfg!(miri) && rng.chance(1, 12) {
        let n = *rng.pick(&[200u64, 254, 255, 256, 257, 300, 511, 512, 513, 1100]);
        for k in 0..n {
            let s = 0x1000_0000_0000u64 + k * 64 + (k % 3) * 8;
            decoys.push(s..s + 8 + (k % 5) * 8);
        }
    }
    let desc = format!("{}:pkt{}{}:mbuff{}:{}{}", kind.name(), plen, if end_aligned { "E" } else { "S" }, mbuff.as_ref().map(|m| m.len()).unwrap_or(0), rdesc, if decoys.is_empty() { String::new() } else { format!("+{}decoy-ranges", decoys.len()) });
    let desc = if adjacent != 0 { format!("{desc}:mbuff-adjacent-{}", if adjacent == 1 { "below" } else { "above" }) } else { desc };
    Layout { kind, pkt, mbuff, extra, ranges, decoys, _parent: parent, desc }
}

/// An access relative to the fixed VM's internal buffer (offsets (0, 8): it must hold two pointers,
/// 16 bytes; an implementation may allocate more, which the interpreter hook reports).
fn r1rel_expectation(d: i64, w: i64, acc: Acc, hook_len: Option<i64>) -> Expect {
    if d < 0 {
        return Expect::Refused;
    }
    if d + w <= 16 {
        return if acc == Acc::Xadd && d % w != 0 { Expect::Either } else { Expect::Performed };
    }
    match hook_len {
        Some(l) if d + w > l.max(16) => Expect::Refused,
        _ => Expect::Either,
    }
}

fn boundary_targets(start: u64, len: u64) -> Vec<u64> {
    let mut v = Vec::new();
    for d in -9i64..=9 {
        v.push(start.wrapping_add(d as u64));
        v.push(start.wrapping_add(len).wrapping_add(d as u64));
    }
    if len > 20 {
        v.push(start + len / 2);
    }
    v.sort();
    v.dedup();
    v
}

/// All regions of the layout as (name, start, len); the stack is added after the run.
fn regions_of(l: &Layout) -> Vec<(String, u64, u64)> {
    let mut r = Vec::new();
    if let Some(p) = &l.pkt {
        r.push(("pkt".to_string(), p.addr(), p.len() as u64));
    }
    if let Some(m) = &l.mbuff {
        r.push(("mbuff".to_string(), m.addr(), m.len() as u64));
    }
    for (i, x) in l.ranges.iter().enumerate() {
        r.push((format!("range{i}"), x.start, x.end - x.start));
    }
    r
}

#[derive(PartialEq, Eq, Clone, Copy, Debug)]
enum Expect {
    Performed,
    Refused,
    /// straddles two adjacent regions / misaligned in-bounds xadd: either outcome is acceptable
    Either,
}

fn expectation(regs: &[(String, u64, u64)], addr: u64, w: u64, acc: Acc) -> Expect {
    let Some(end) = addr.checked_add(w) else { return Expect::Refused };
    let inside_one = regs.iter().any(|(_, s, l)| *l > 0 && *s <= addr && end <= s + l);
    if inside_one {
        if acc == Acc::Xadd && addr % w != 0 {
            return Expect::Either;
        }
        return Expect::Performed;
    }
    // every byte covered by the union of regions? (adjacent regions)
    let all_covered = (addr..end).all(|b| regs.iter().any(|(_, s, l)| *s <= b && b < s + l));
    if all_covered { Expect::Either } else { Expect::Refused }
}


/// A buffer of 2^32 + 8192 bytes (reserved, untouched pages cost nothing) between two PROT_NONE pages.
#[cfg(not(miri))]
struct HugeBuf {
    map: *mut u8,
    map_len: usize,
}
#[cfg(not(miri))]
const HUGE_LEN: u64 = (1u64 << 32) + 2 * sys::PAGE as u64;
#[cfg(not(miri))]
impl HugeBuf {
    fn new(shared: bool) -> Option<HugeBuf> {
        let map_len = HUGE_LEN as usize + 2 * sys::PAGE;
        unsafe {
            let flags = if shared { libc::MAP_SHARED } else { libc::MAP_PRIVATE } | libc::MAP_ANONYMOUS | libc::MAP_NORESERVE;
            let map = libc::mmap(std::ptr::null_mut(), map_len, libc::PROT_READ | libc::PROT_WRITE, flags, -1, 0) as *mut u8;
            if map as isize == -1 {
                return None;
            }
            libc::mprotect(map as *mut _, sys::PAGE, libc::PROT_NONE);
            libc::mprotect(map.add(map_len - sys::PAGE) as *mut _, sys::PAGE, libc::PROT_NONE);
            Some(HugeBuf { map, map_len })
        }
    }
    fn addr(&self) -> u64 {
        self.map as u64 + sys::PAGE as u64
    }
    /// the 40 bytes around offset `d` (8 before, 32 from it on); bytes outside the buffer read as 0
    fn window(&self, d: u64) -> Vec<u8> {
        (0..40u64).map(|k| { let o = (d + k).wrapping_sub(8); if o < HUGE_LEN { unsafe { *(self.addr() as *const u8).add(o as usize) } } else { 0 } }).collect()
    }
    fn paint(&self, d: u64) {
        for k in 0..40u64 {
            let o = (d + k).wrapping_sub(8);
            if o < HUGE_LEN {
                unsafe { *(self.addr() as *mut u8).add(o as usize) = huge_pat(o) };
            }
        }
    }
}
#[cfg(not(miri))]
impl Drop for HugeBuf {
    fn drop(&mut self) {
        unsafe {
            libc::munmap(self.map as *mut _, self.map_len);
        }
    }
}
#[cfg(not(miri))]
fn huge_pat(o: u64) -> u8 {
    ((o ^ (o >> 8) ^ (o >> 16) ^ (o >> 32)) as u8).wrapping_mul(37).wrapping_add(11)
}

/// Regions larger than 4 GiB: lengths, offsets and end addresses that do not fit 32 bits. The huge
/// buffer is the packet of a raw VM, the metadata buffer of a metadata VM or (interpreter) a
/// registered range of a no-data VM; accesses at offsets around 2^16, 2^31, 2^32 and the end.
#[cfg(not(miri))]
pub fn huge_probes(a: &Args, rep: &mut Report, engine: crate::engines::Engine) {
    use crate::engines::Engine;
    let cl = engine == Engine::Cranelift;
    // the x86-64 JIT emits no bounds checks: only accesses inside the buffer are run (C03: same
    // value and bytes as the interpreter, which the C02 pass holds to the same expectations)
    let jit = engine == Engine::Jit;
    let prop = match engine { Engine::Cranelift => "C11", Engine::Jit => "C03", Engine::Interp => "C02" };
    if sys::cpu_scale() > 1 {
        return; // sanitizer / valgrind variants: shadow memory for 4 GiB mappings is not worth it
    }
    let Some(hb) = HugeBuf::new(cl) else {
        rep.inconclusive("huge-buffer probes: mmap of 4 GiB (MAP_NORESERVE) refused".into());
        return;
    };
    let small = GuardBuf::new(64, true, cl);
    let mut rng = Rng::derive(a.seed, a.shard, if cl { 1111 } else if jit { 333 } else { 222 });
    let n = (((if a.tier == "quick" { 6_000.0 } else { 60_000.0 }) * a.scale) as u64 / a.nshards).max(40) as usize;
    let l = HUGE_LEN;
    let ds: Vec<u64> = vec![0, 1, 65535, 65536, 65537, (1 << 31) - 8, (1 << 31) - 4, (1 << 31) - 1, 1 << 31, (1 << 31) + 4, (1 << 32) - 8, (1 << 32) - 4, (1 << 32) - 1, 1 << 32,
        (1 << 32) + 1, (1 << 32) + 8, (1 << 32) + 4096, l - 16, l - 8, l - 7, l - 4, l - 3, l - 2, l - 1, l];
    #[derive(Clone, Debug)]
    struct H { role: u8, acc: Acc, width: u8, d: u64, off: i16, via_r1: bool, prog: Vec<u8> }
    let mut cases: Vec<H> = Vec::new();
    while cases.len() < n {
        let role = if cl || jit { rng.below(2) as u8 } else { rng.below(3) as u8 }; // 0 packet (raw VM), 1 metadata buffer, 2 registered range (no-data VM)
        let acc = *rng.pick(&[Acc::Ldx, Acc::Ldx, Acc::St, Acc::Stx, Acc::Xadd, Acc::LdAbs, Acc::LdInd]);
        let width = if acc == Acc::Xadd { *rng.pick(&[4u8, 8]) } else { *rng.pick(&[1u8, 2, 4, 8]) };
        let mut d = *rng.pick(&ds);
        if rng.chance(1, 6) {
            d = rng.below(l);
        }
        if acc == Acc::Xadd {
            d &= !(width as u64 - 1);
        }
        if matches!(acc, Acc::LdAbs | Acc::LdInd) && role != 0 {
            continue;
        }
        if acc == Acc::LdAbs && d >= 1 << 31 {
            continue; // negative immediates of ld_abs are outside every claim
        }
        if jit && d + width as u64 > l {
            continue;
        }
        let off: i16 = *rng.pick(&[0i16, 0, 8, -8, i16::MAX, i16::MIN, 1, -1]);
        let via_r1 = role != 2 && rng.chance(1, 2);
        let opc = opcode_for(acc, width);
        let mut v: Vec<Insn> = Vec::new();
        match acc {
            Acc::LdAbs => v.push(Insn::new(opc, 0, 0, 0, d as u32 as i32)),
            Acc::LdInd => {
                let imm = off.max(0) as i32;
                let src = d.wrapping_sub(imm as u64);
                v.push(Insn::new(LDDW, 3, 0, 0, src as u32 as i32));
                v.push(Insn::new(0, 0, 0, 0, (src >> 32) as u32 as i32));
                v.push(Insn::new(opc, 0, 3, 0, imm));
            }
            _ => {
                let b = if via_r1 { d.wrapping_sub(off as i64 as u64) } else { hb.addr().wrapping_add(d).wrapping_sub(off as i64 as u64) };
                v.push(Insn::new(LDDW, 2, 0, 0, b as u32 as i32));
                v.push(Insn::new(0, 0, 0, 0, (b >> 32) as u32 as i32));
                if via_r1 {
                    v.push(Insn::new(ADD64_REG, 2, 1, 0, 0));
                }
                match acc {
                    Acc::Ldx => v.push(Insn::new(opc, 0, 2, off, 0)),
                    Acc::St => {
                        v.push(Insn::new(opc, 2, 0, off, ST_IMM));
                        v.push(Insn::new(MOV64_IMM, 0, 0, 0, 7));
                    }
                    _ => {
                        v.push(Insn::new(LDDW, 4, 0, 0, STORE_VAL as u32 as i32));
                        v.push(Insn::new(0, 0, 0, 0, (STORE_VAL >> 32) as u32 as i32));
                        v.push(Insn::new(opc, 2, 4, off, 0));
                        v.push(Insn::new(MOV64_IMM, 0, 0, 0, 7));
                    }
                }
            }
        }
        v.push(Insn::new(EXIT, 0, 0, 0, 0));
        cases.push(H { role, acc, width, d, off, via_r1, prog: encode_prog(&v) });
    }
    let mut on_death = |i: usize| -> Vec<u8> { hb.window(cases[i].d) };
    let ends = sys::run_batch_ex(cases.len(), 60, 30, |i, out| {
        let c = &cases[i];
        hb.paint(c.d);
        let r = sys::catch(|| -> Result<u64, String> {
            let kind = [Kind::Raw, Kind::Mbuff, Kind::NoData][c.role as usize];
            let mut vm = Vm::new(kind, Some(&c.prog), (0, 8)).map_err(|e| format!("REJECTED {e}"))?;
            if c.role == 2 {
                vm.register_allowed(hb.addr()..hb.addr() + l);
            }
            hooks::reset(200_000, false);
            let huge = (hb.addr() as *mut u8, l as usize);
            let sm = (small.addr() as *mut u8, small.len());
            let (pk, mb) = match c.role {
                0 => (huge, (std::ptr::null_mut(), 0)),
                1 => (sm, huge),
                _ => ((std::ptr::null_mut(), 0), (std::ptr::null_mut(), 0)),
            };
            if cl {
                #[cfg(feature = "std")]
                {
                    vm.cl_compile().map_err(|e| format!("REJECTED compile: {e}"))?;
                    return vm.exec_cl(pk, mb);
                }
            }
            if jit {
                #[cfg(any(feature = "std", feature = "stdlite"))]
                {
                    vm.jit_compile().map_err(|e| format!("REJECTED compile: {e}"))?;
                    return unsafe { vm.exec_jit(pk, mb) };
                }
            }
            vm.exec(pk, mb)
        });
        let (st, val, msg) = match r {
            Ok(Ok(v)) => (0u8, v, String::new()),
            Ok(Err(e)) => (1u8, 0, e),
            Err(p) => (2u8, 0, p),
        };
        out.push(st);
        out.extend_from_slice(&val.to_le_bytes());
        out.extend_from_slice(&hb.window(c.d));
        let m = msg.as_bytes();
        let ml = m.len().min(200);
        out.push(ml as u8);
        out.extend_from_slice(&m[..ml]);
    }, &mut on_death);
    for (c, e) in cases.iter().zip(ends.iter()) {
        let role = ["huge-packet", "huge-mbuff", "huge-range"][c.role as usize];
        let dclass = if c.d + c.width as u64 > l { "past-end" } else if c.d >= 1 << 32 { "beyond-4G" } else if c.d + c.width as u64 > 1 << 32 { "across-4G" } else if c.d >= 1 << 31 { "beyond-2G" } else if c.d >= 65536 { "beyond-64K" } else { "low" };
        let cell = format!("{:?}{}:{role}:{dclass}", c.acc, c.width);
        rep.set("cells", cell.clone());
        rep.set("layouts", format!("{role}:{}", l));
        rep.count("huge_buffer_probes");
        rep.case(Some(crate::util::fnv(&c.prog) ^ crate::util::fnv(role.as_bytes())));
        let w = json!({"kind": "huge-access-case", "role": role, "access": format!("{:?}", c.acc), "width": c.width, "offset_in_buffer": c.d, "buffer_len": l, "off": c.off, "base_from_r1": c.via_r1, "prog": hex(&c.prog)});
        let exp_performed = c.d + c.width as u64 <= l;
        let pattern: Vec<u8> = (0..40u64).map(|k| { let o = (c.d + k).wrapping_sub(8); if o < l { huge_pat(o) } else { 0 } }).collect();
        let sigbase = format!("{:?}{}:{role}", c.acc, c.width);
        let (st, val, win, msg) = match e {
            CaseEnd::Done(b) => {
                let ml = b[49] as usize;
                (b[0], u64::from_le_bytes(b[1..9].try_into().unwrap()), b[9..49].to_vec(), String::from_utf8_lossy(&b[50..50 + ml]).to_string())
            }
            CaseEnd::Died(s, extra) => {
                if cl && *s == libc::SIGILL {
                    rep.count("traps");
                    if exp_performed {
                        rep.violation(&format!("C11:trapped-in-region:{sigbase}"), format!("access at offset {:#x} (width {}) of a {l:#x}-byte buffer trapped ({cell})", c.d, c.width), w);
                    } else if *extra != pattern {
                        rep.violation(&format!("C11:trap-after-write:{sigbase}"), format!("execution trapped but bytes around offset {:#x} changed ({cell})", c.d), w);
                    } else {
                        rep.count("refused_ok");
                    }
                } else {
                    rep.count("faults");
                    rep.violation(&format!("{prop}:fault-{}:{:?}:{role}", sys::signame(*s), c.acc), format!("execution was killed by {} ({cell}, offset {:#x} of {l:#x})", sys::signame(*s), c.d), w);
                }
                continue;
            }
            CaseEnd::CpuTimeout => {
                rep.inconclusive(format!("cpu timeout in {cell}"));
                continue;
            }
            CaseEnd::Inconclusive(s) => {
                rep.inconclusive(s.clone());
                continue;
            }
        };
        if st == 2 {
            rep.violation(&format!("{prop}:panic:{sigbase}:{}", sys::panic_site(&msg)), format!("panicked: {msg}"), w);
            continue;
        }
        if msg.starts_with("REJECTED") {
            rep.inconclusive(format!("harness program rejected: {msg}"));
            continue;
        }
        rep.count(if exp_performed { "expect_performed" } else { "expect_refused" });
        match (exp_performed, st) {
            (false, 0) => rep.violation(&format!("{prop}:performed-out-of-region:{sigbase}"), format!("access at offset {:#x} width {} runs past the end of the {l:#x}-byte buffer but execution returned Ok({val:#x})", c.d, c.width), w),
            (false, _) => {
                if win != pattern {
                    rep.violation(&format!("{prop}:refused-but-wrote:{sigbase}"), format!("access refused but bytes around offset {:#x} changed", c.d), w);
                } else {
                    rep.count("refused_ok");
                }
            }
            (true, 1) => rep.violation(&format!("{prop}:refused-in-region:{sigbase}"), format!("access at offset {:#x} width {} lies inside the {l:#x}-byte buffer but {} returned an error: {msg}", c.d, c.width, engine.name()), w),
            (true, _) => {
                let mut old = 0u64;
                for k in 0..c.width as usize {
                    old |= (pattern[8 + k] as u64) << (8 * k);
                }
                let mut want_win = pattern.clone();
                let newv = match c.acc {
                    Acc::St => Some(ST_IMM as i64 as u64),
                    Acc::Stx => Some(STORE_VAL),
                    Acc::Xadd => Some(old.wrapping_add(STORE_VAL)),
                    _ => None,
                };
                if let Some(nv) = newv {
                    for k in 0..c.width as usize {
                        want_win[8 + k] = (nv >> (8 * k)) as u8;
                    }
                }
                if newv.is_none() && val != old {
                    rep.violation(&format!("{prop}:wrong-load:{sigbase}"), format!("load at offset {:#x} returned {val:#x}, memory holds {old:#x}", c.d), w);
                } else if win != want_win {
                    rep.violation(&format!("{prop}:wrong-store:{sigbase}"), format!("bytes around offset {:#x} after the access: {}, expected {}", c.d, hex(&win), hex(&want_win)), w);
                } else {
                    rep.count("performed_ok");
                }
            }
        }
    }
}

pub fn run(a: &Args, rep: &mut Report, cl: bool) {
    #[cfg(not(miri))]
    huge_probes(a, rep, if cl { crate::engines::Engine::Cranelift } else { crate::engines::Engine::Interp });
    let prop = if cl { "C11" } else { "C02" };
    let mut rng = Rng::derive(a.seed, a.shard, if cl { 11 } else { 2 });
    let q = a.tier == "quick";
    let target_cases = ((if cl { if q { 80_000.0 } else { 3_000_000.0 } } else if q { 240_000.0 } else { 8_000_000.0 }) * a.scale) as u64 / a.nshards;
    let mut done = 0u64;
    let accs = [Acc::Ldx, Acc::St, Acc::Stx, Acc::Xadd, Acc::LdAbs, Acc::LdInd];
    while done < target_cases {
        let l = make_layout(&mut rng, cl);
        rep.set("layouts", l.desc.clone());
        let pkt_base = l.pkt.as_ref().map(|p| p.addr()).unwrap_or(0);
        let regs = regions_of(&l);
        // candidate target addresses
        let mut targets: Vec<(String, Target)> = Vec::new();
        for (name, s, len) in &regs {
            for t in boundary_targets(*s, *len) {
                targets.push((name.clone(), Target::Abs(t)));
            }
        }
        for d in (-521i64..=-503).chain(-9..=9) {
            targets.push(("stack".into(), Target::StackRel(d)));
        }
        if l.kind == Kind::Fixed {
            for d in -9i64..=25 {
                targets.push(("fixed-internal-buffer".into(), Target::R1Rel(d)));
            }
        }
        for k in 0..9u64 {
            targets.push(("null".into(), Target::Abs(k)));
            targets.push(("wrap".into(), Target::Abs(u64::MAX - k)));
        }
        // the canary area next to the extra buffer (mapped, but not a region)
        targets.push(("unregistered-mapped".into(), Target::Abs(l.extra.addr() - 100)));
        targets.push(("unregistered-mapped".into(), Target::Abs(l.extra.addr() + 64 + 100)));
        for _ in 0..4 {
            targets.push(("random".into(), Target::Abs(rng.next())));
        }
        // cases for this layout: a random subset of targets x access kinds x widths x splits
        let mut cases: Vec<AccCase> = Vec::new();
        let mut long_warm = 0u64;
        // (layouts with large buffers: fewer cases each - every case snapshots all arenas)
        let large = l.pkt.as_ref().map(|p| p.len()).unwrap_or(0) + l.mbuff.as_ref().map(|m| m.len()).unwrap_or(0) > 8192;
        let per_layout = (if large { 160 } else if cl { 400 } else { 1500 }).min((target_cases - done) as usize).max(1);
        while cases.len() < per_layout {
            let (tname, t) = targets[rng.below(targets.len() as u64) as usize].clone();
            let acc = accs[rng.below(accs.len() as u64) as usize];
            let width = match acc {
                Acc::Xadd => *rng.pick(&[4u8, 8]),
                _ => *rng.pick(&[1u8, 2, 4, 8]),
            };
            let off: i16 = *rng.pick(&[0i16, 0, 1, -1, 8, -8, i16::MIN, i16::MAX, 127, -128]);
            if matches!(acc, Acc::LdAbs | Acc::LdInd) && l.pkt.is_none() {
                // without a packet there is no packet base address to speak of
                continue;
            }
            match acc {
                Acc::LdAbs => {
                    // only targets at pkt_base + [0, 2^32)
                    let Target::Abs(tt) = t else { continue };
                    if tt.wrapping_sub(pkt_base) > u32::MAX as u64 {
                        continue;
                    }
                    cases.push(AccCase { acc, width, target: t, off: 0, tag: tname, warm: false, repoint: 0, warm_width: 0, warm_reps: 0, via_set_program: rng.chance(1, 4), direct: 0, src_field: 0, regs: (2, 4, 0) });
                }
                Acc::LdInd => {
                    let Target::Abs(_) = t else { continue };
                    cases.push(AccCase { acc, width, target: t, off: off.max(0), tag: tname, warm: false, repoint: 0, warm_width: 0, warm_reps: 0, via_set_program: rng.chance(1, 4), direct: 0, src_field: 0, regs: (2, 4, 0) });
                }
                _ => {
                    // stack targets: half of them addressed through r10 itself (or an unmodified
                    // copy), the whole displacement in the offset field
                    // targets near the region r1 points to: a third of them addressed through r1 itself
                    let r1_base = match l.kind {
                        Kind::Mbuff => l.mbuff.as_ref().map(|m| m.addr()),
                        Kind::Raw => l.pkt.as_ref().map(|p| p.addr()),
                        _ => None,
                    };
                    let (off, direct, tname) = match (t, r1_base) {
                        (Target::StackRel(d), _) if rng.chance(1, 2) => (d as i16, 1 + rng.below(2) as u8, "stack-direct".to_string()),
                        (Target::R1Rel(d), _) => (d as i16, 3, tname),
                        (Target::Abs(tt), Some(b)) if (tt.wrapping_sub(b) as i64) >= i16::MIN as i64 && (tt.wrapping_sub(b) as i64) <= i16::MAX as i64 && rng.chance(1, 3) => {
                            (tt.wrapping_sub(b) as i64 as i16, 3, format!("{tname}-via-r1"))
                        }
                        _ => (off, 0, tname),
                    };
                    let warm = direct != 3 && rng.chance(1, 4);
                    let src_field = match acc {
                        Acc::Stx => if rng.chance(1, 4) { 10 } else { 4 },
                        Acc::St => *rng.pick(&[0u8, 0, 0, 10, 2, 7]),
                        _ => 0,
                    };
                    // register roles (every register maps to another x86 register / Cranelift variable)
                    let regs = if rng.chance(1, 2) {
                        (2, 4, 0)
                    } else {
                        let b = *rng.pick(&[3u8, 6, 7, 8, 9]);
                        let sreg = *rng.pick(&[4u8, 8, 9, 6]);
                        let d = *rng.pick(&[0u8, 6, 9, 3]);
                        if b == sreg || d == b { (b, 4, 0) } else { (b, sreg, d) }
                    };
                    let src_field = if acc == Acc::Stx && src_field == 4 { 4 } else { src_field };
                    // warm cases: how the base register is re-pointed, and the width of the warm access
                    let mut repoint = if warm { rng.below(6) as u8 } else { 0 };
                    if repoint == 4 && (l.pkt.is_none() || !matches!(t, Target::Abs(_))) {
                        repoint = 0;
                    }
                    let is_abs = matches!(t, Target::Abs(_));
                    let (t, tname) = if warm && repoint == 4 && is_abs {
                        // r0 = first packet byte (3, see `reset`): the access goes to 3 + off
                        (Target::Abs((3i64 + off as i64) as u64), "after-ldabs".to_string())
                    } else {
                        (t, tname)
                    };
                    let regs = if warm && is_abs && (repoint == 3 || repoint == 4) { (0, regs.1, 0) } else { regs };
                    let warm_width = if warm && rng.chance(1, 3) { 8 } else { 0 };
                    let warm_reps = if warm && is_abs && !cfg!(miri) && acc != Acc::Xadd && rng.chance(1, if cl { 25 } else { 150 }) { rng.range(2500, 6500) as u32 } else { 0 };
                    if warm_reps > 0 {
                        long_warm += 1;
                    }
                    cases.push(AccCase { acc, width, target: t, off, tag: tname, warm, repoint, warm_width, warm_reps, via_set_program: rng.chance(1, 4), direct, src_field, regs })
                }
            }
        }
        rep.add("cases_with_thousands_of_warm_accesses", long_warm);
        // snapshot of every arena
        let reset = |l: &Layout| {
            if let Some(p) = &l.pkt {
                let bytes: Vec<u8> = (0..p.len()).map(|i| (i as u8).wrapping_mul(7).wrapping_add(3)).collect();
                p.fill(&bytes);
                p.reset_canary();
            }
            if let Some(m) = &l.mbuff {
                let bytes: Vec<u8> = (0..m.len()).map(|i| (i as u8).wrapping_mul(13).wrapping_add(5)).collect();
                m.fill(&bytes);
                m.reset_canary();
            }
            if let Some(pa) = &l._parent {
                pa.reset_canary();
            }
            let bytes: Vec<u8> = (0..64).map(|i| (i as u8).wrapping_mul(29).wrapping_add(11)).collect();
            l.extra.fill(&bytes);
            l.extra.reset_canary();
        };
        reset(&l);
        let arenas = |l: &Layout| -> Vec<(u64, Vec<u8>)> {
            let mut v = Vec::new();
            if let Some(pa) = &l._parent {
                // adjacent layout: one mapping holds both buffers (and the canaries around them)
                v.push((pa.span().0, pa.span_bytes()));
            } else {
                if let Some(p) = &l.pkt {
                    v.push((p.span().0, p.span_bytes()));
                }
                if let Some(m) = &l.mbuff {
                    v.push((m.span().0, m.span_bytes()));
                }
            }
            v.push((l.extra.span().0, l.extra.span_bytes()));
            v
        };
        let before = arenas(&l);
        let progs: Vec<Vec<u8>> = cases.iter().map(|c| build_prog(c, pkt_base)).collect();
        let mut on_death = |_i: usize| -> Vec<u8> {
            // runs in the parent right after a child died: which shared bytes did the case change?
            let after = arenas(&l);
            let mut out = Vec::new();
            let mut n = 0u8;
            let mut body = Vec::new();
            for ((base, b), (_, a2)) in before.iter().zip(after.iter()) {
                for (k, (x, y)) in b.iter().zip(a2.iter()).enumerate() {
                    if x != y && n < 64 {
                        n += 1;
                        body.extend_from_slice(&(base + k as u64).to_le_bytes());
                        body.push(*y);
                    }
                }
            }
            out.push(n);
            out.extend_from_slice(&body);
            out
        };
        let ends = sys::run_batch_ex(cases.len(), 60, 30, |i, out| {
            reset(&l);
            let prog = &progs[i];
            // fixed VM loaded through set_program after it was created for LARGER offsets: the
            // same access on a VM created for (0, 8) directly is the reference (interpreter only)
            let shrink = !cl && l.kind == Kind::Fixed && cases[i].via_set_program && cases[i].off % 2 == 0;
            let mut fresh_status = 255u8;
            if shrink {
                let fr = sys::catch(|| -> Result<u64, String> {
                    let mut vm = Vm::new(l.kind, Some(prog), (0, 8))?;
                    for r in l.decoys.iter().take(l.decoys.len() / 2).chain(l.ranges.iter()).chain(l.decoys.iter().skip(l.decoys.len() / 2)) {
                        vm.register_allowed(r.clone());
                    }
                    vm.register_helper(RET_A1_ID, ret_a1)?;
                    hooks::reset(200_000, false);
                    let pk = l.pkt.as_ref().map(|p| (p.addr() as *mut u8, p.len())).unwrap_or((std::ptr::null_mut(), 0));
                    vm.exec(pk, (std::ptr::null_mut(), 0))
                });
                fresh_status = match fr {
                    Ok(Ok(_)) => 0,
                    Ok(Err(_)) => 1,
                    Err(_) => 2,
                };
                reset(&l);
            }
            let r = sys::catch(|| {
                let mut vm = if cases[i].via_set_program {
                    let mut vm = Vm::new(l.kind, None, if shrink { (0x40, 0x50) } else { (0, 8) }).map_err(|e| format!("REJECTED {e}"))?;
                    for r in l.decoys.iter().take(l.decoys.len() / 2).chain(l.ranges.iter()).chain(l.decoys.iter().skip(l.decoys.len() / 2)) {
                        vm.register_allowed(r.clone());
                    }
                    vm.set_program(prog, (0, 8)).map_err(|e| format!("REJECTED {e}"))?;
                    vm.register_helper(RET_A1_ID, ret_a1).map_err(|e| format!("REJECTED helper: {e}"))?;
                    vm
                } else {
                    let mut vm = Vm::new(l.kind, Some(prog), (0, 8)).map_err(|e| format!("REJECTED {e}"))?;
                    for r in l.decoys.iter().take(l.decoys.len() / 2).chain(l.ranges.iter()).chain(l.decoys.iter().skip(l.decoys.len() / 2)) {
                        vm.register_allowed(r.clone());
                    }
                    vm.register_helper(RET_A1_ID, ret_a1).map_err(|e| format!("REJECTED helper: {e}"))?;
                    vm
                };
                hooks::reset(200_000, false);
                let pk = l.pkt.as_ref().map(|p| (p.addr() as *mut u8, p.len())).unwrap_or((std::ptr::null_mut(), 0));
                let mb = l.mbuff.as_ref().map(|p| (p.addr() as *mut u8, p.len())).unwrap_or((std::ptr::null_mut(), 0));
                // "after something went wrong": a quarter of the interpreter cases are preceded, on
                // the same VM, by an execution with no packet and no metadata buffer (refused for
                // programs that reach them through r1 / ld_abs / ld_ind); arenas are restored after it
                if !cl && cases[i].off % 4 == 1 {
                    let _ = vm.exec((std::ptr::null_mut(), 0), (std::ptr::null_mut(), 0));
                    reset(&l);
                    hooks::reset(200_000, false);
                }
                if cl {
                    #[cfg(feature = "std")]
                    {
                        vm.cl_compile().map_err(|e| format!("REJECTED compile: {e}"))?;
                        return vm.exec_cl(pk, mb);
                    }
                }
                vm.exec(pk, mb)
            });
            // record: status, value, stack addr, changed bytes list (addr, new value) (max 64)
            let (st, val, msg) = match r {
                Ok(Ok(v)) => (0u8, v, String::new()),
                Ok(Err(e)) => (1u8, 0, e),
                Err(p) => (2u8, 0, p),
            };
            out.push(st);
            out.extend_from_slice(&val.to_le_bytes());
            out.extend_from_slice(&hooks::stack_addr().to_le_bytes());
            out.extend_from_slice(&hooks::mbuff().0.to_le_bytes());
            out.extend_from_slice(&hooks::mbuff().1.to_le_bytes());
            let after = arenas(&l);
            let mut changes: Vec<(u64, u8)> = Vec::new();
            for ((base, b), (_, a2)) in before.iter().zip(after.iter()) {
                for (k, (x, y)) in b.iter().zip(a2.iter()).enumerate() {
                    if x != y && changes.len() < 64 {
                        changes.push((base + k as u64, *y));
                    }
                }
            }
            out.push(changes.len() as u8);
            for (ad, y) in changes {
                out.extend_from_slice(&ad.to_le_bytes());
                out.push(y);
            }
            let m = msg.as_bytes();
            let ml = m.len().min(200);
            out.push(ml as u8);
            out.extend_from_slice(&m[..ml]);
            out.push(fresh_status);
        }, &mut on_death);
        // judge
        let mem_at = |addr: u64| -> Option<u8> {
            for (base, b) in &before {
                if addr >= *base && addr < base + b.len() as u64 {
                    return Some(b[(addr - base) as usize]);
                }
            }
            None
        };
        for ((c, e), prog) in cases.iter().zip(ends.iter()).zip(progs.iter()) {
            done += 1;
            let cell = format!("{:?}{}:{}", c.acc, c.width, c.tag);
            rep.set("cells", cell.clone());
            let w = json!({"kind": "access-case", "layout": l.desc, "access": format!("{:?}", c.acc), "width": c.width, "target": format!("{:?}", c.target), "off": c.off, "warm": c.warm, "repoint": c.repoint, "warm_width": c.warm_width, "via_set_program": c.via_set_program, "region": c.tag, "prog": hex(prog),
                "regions": regs.iter().map(|(n, s, l)| format!("{n}@{s:#x}+{l}")).collect::<Vec<_>>()});
            let rec = match e {
                CaseEnd::Done(b) => b,
                CaseEnd::Died(s, extra) => {
                    rep.case(Some(crate::util::fnv(prog) ^ crate::util::fnv(l.desc.as_bytes())));
                    if cl && *s == libc::SIGILL {
                        // the Cranelift trap: legitimate iff the access is not inside a region, and
                        // nothing may have been written before it
                        let exp = match c.target {
                            Target::Abs(t) => expectation(&regs, t, c.width as u64, c.acc),
                            Target::StackRel(d) => {
                                if -512 <= d && d + c.width as i64 <= 0 { if c.acc == Acc::Xadd && d.rem_euclid(c.width as i64) != 0 { Expect::Either } else { Expect::Performed } } else { Expect::Refused }
                            }
                            Target::R1Rel(d) => r1rel_expectation(d, c.width as i64, c.acc, None),
                        };
                        rep.count("traps");
                        let nchg = extra.first().copied().unwrap_or(0);
                        if exp == Expect::Performed {
                            rep.violation(&format!("C11:trapped-in-region:{:?}{}:{}", c.acc, c.width, c.tag), format!("access entirely inside a region trapped ({cell})"), w);
                        } else if nchg != 0 {
                            rep.violation(&format!("C11:trap-after-write:{:?}{}:{}", c.acc, c.width, c.tag), format!("execution trapped but {nchg} bytes of shared memory had been changed ({cell})"), w);
                        } else {
                            rep.count("refused_ok");
                        }
                        continue;
                    }
                    rep.count("faults");
                    rep.violation(&format!("{prop}:fault-{}:{:?}:{}", sys::signame(*s), c.acc, c.tag), format!("execution was killed by {} ({cell}){}", sys::signame(*s), if cl { ": the access was made (or something else faulted) instead of trapping" } else { " instead of returning Err" }), w);
                    continue;
                }
                CaseEnd::CpuTimeout => {
                    rep.case(None);
                    rep.inconclusive(format!("cpu timeout in {cell}"));
                    continue;
                }
                CaseEnd::Inconclusive(s) => {
                    rep.case(None);
                    rep.inconclusive(s.clone());
                    continue;
                }
            };
            let st = rec[0];
            let val = u64::from_le_bytes(rec[1..9].try_into().unwrap());
            let stack_addr = u64::from_le_bytes(rec[9..17].try_into().unwrap());
            let (hook_mbuff, hook_mbuff_len) = (u64::from_le_bytes(rec[17..25].try_into().unwrap()), u64::from_le_bytes(rec[25..33].try_into().unwrap()));
            let rec = &rec[16..];
            let nch = rec[17] as usize;
            let mut changes: Vec<(u64, u8)> = Vec::new();
            for k in 0..nch {
                let o = 18 + k * 9;
                changes.push((u64::from_le_bytes(rec[o..o + 8].try_into().unwrap()), rec[o + 8]));
            }
            let mo = 18 + nch * 9;
            let ml = rec[mo] as usize;
            let msg = String::from_utf8_lossy(&rec[mo + 1..mo + 1 + ml]).to_string();
            let fresh_status = rec.get(mo + 1 + ml).copied().unwrap_or(255);
            // effective address
            let mut all = regs.clone();
            // Cranelift: the stack lives in the native stack of the child and has no hook; stack
            // targets are relative to r10 by construction, so use a fictitious base for them
            let stack_addr = if cl { 0x10_0000_0000 } else { stack_addr };
            // the fixed VM's internal buffer: real address from the hook (interpreter), fictitious under Cranelift
            let r1_base = if cl || hook_mbuff == 0 { 0x20_0000_0000 } else { hook_mbuff };
            let addr = match c.target {
                Target::Abs(t) => t,
                Target::StackRel(d) => stack_addr.wrapping_add(512).wrapping_add(d as u64),
                Target::R1Rel(d) => r1_base.wrapping_add(d as u64),
            };
            all.push(("stack".into(), stack_addr, 512));
            let exp = match c.target {
                Target::R1Rel(d) => r1rel_expectation(d, c.width as i64, c.acc, if cl { None } else { Some(hook_mbuff_len as i64) }),
                _ => expectation(&all, addr, c.width as u64, c.acc),
            };
            let in_r1rel = matches!(c.target, Target::R1Rel(_));
            rep.case(Some(crate::util::fnv(prog) ^ crate::util::fnv(l.desc.as_bytes())));
            rep.count(match exp {
                Expect::Performed => "expect_performed",
                Expect::Refused => "expect_refused",
                Expect::Either => "expect_either",
            });
            if rep.want_sample() && done % 20011 == 3 {
                rep.sample(json!({"case": w, "expected": format!("{exp:?}"), "status": st, "value": val}));
            }
            let sigbase = format!("{:?}{}:{}", c.acc, c.width, c.tag);
            if st == 2 {
                rep.violation(&format!("{prop}:panic:{}:{}", sigbase, sys::panic_site(&msg)), format!("interpreter panicked: {msg}"), w);
                continue;
            }
            if msg.starts_with("REJECTED") {
                rep.inconclusive(format!("harness program rejected: {msg}"));
                continue;
            }
            if fresh_status != 255 {
                rep.count("compared_with_vm_created_for_these_offsets");
                if fresh_status != st {
                    rep.violation(&format!("{prop}:bounds-depend-on-vm-history:{sigbase}"), format!("a fixed VM created for offsets (0x40,0x50) and re-loaded with (0,8) gave status {st}; a VM created for (0,8) gives {fresh_status} (0 = performed, 1 = refused) for the access at {addr:#x}"), w.clone());
                }
            }
            let is_store = matches!(c.acc, Acc::St | Acc::Stx | Acc::Xadd);
            match (exp, st) {
                (Expect::Refused, 0) => {
                    rep.violation(&format!("{prop}:performed-out-of-region:{sigbase}"), format!("access at {addr:#x} width {} is not inside any region but execution returned Ok({val:#x}); bytes changed: {}", c.width, changes.len()), w);
                }
                (Expect::Refused, 1) | (Expect::Either, 1) => {
                    if !changes.is_empty() {
                        rep.violation(&format!("{prop}:refused-but-wrote:{sigbase}"), format!("access refused with Err but {} bytes changed", changes.len()), w);
                    } else {
                        rep.count("refused_ok");
                    }
                }
                (Expect::Performed, 1) => {
                    rep.violation(&format!("{prop}:refused-in-region:{sigbase}"), format!("access at {addr:#x} width {} lies inside a region but was refused: {msg}", c.width), w);
                }
                (Expect::Performed, 0) | (Expect::Either, 0) => {
                    // verify the effect
                    let in_stack = addr >= stack_addr && addr < stack_addr + 512;
                    if !is_store {
                        if in_r1rel {
                            // the buffer holds the packet's start and end addresses (offsets (0, 8))
                            if let (Some(p), Target::R1Rel(d)) = (&l.pkt, c.target) {
                                if d >= 0 && d + c.width as i64 <= 16 {
                                    let mut img = [0u8; 16];
                                    img[..8].copy_from_slice(&p.addr().to_le_bytes());
                                    img[8..].copy_from_slice(&(p.addr() + p.len() as u64).to_le_bytes());
                                    let mut want = 0u64;
                                    for k in 0..c.width as usize {
                                        want |= (img[d as usize + k] as u64) << (8 * k);
                                    }
                                    if want != val {
                                        rep.violation(&format!("{prop}:wrong-load:{sigbase}"), format!("load from the internal buffer at +{d} returned {val:#x}, expected {want:#x}"), w.clone());
                                    }
                                }
                            }
                        } else if !in_stack {
                            let mut want = 0u64;
                            let mut known = true;
                            for k in 0..c.width as u64 {
                                match mem_at(addr + k) {
                                    Some(b) => want |= (b as u64) << (8 * k),
                                    None => known = false,
                                }
                            }
                            if known && want != val {
                                rep.violation(&format!("{prop}:wrong-load:{sigbase}"), format!("load at {addr:#x} returned {val:#x}, memory holds {want:#x}"), w.clone());
                            }
                        } else {
                            // initialised stack bytes hold 0x0badcafe sign-extended stores
                            let mut st_img = [0u8; 512];
                            for k in [8usize, 16, 24, 32, 512, 504, 496, 488] {
                                st_img[512 - k..512 - k + 8].copy_from_slice(&(0x0badcafeu64).to_le_bytes());
                            }
                            let o = (addr - stack_addr) as usize;
                            let mut want = 0u64;
                            for k in 0..c.width as usize {
                                want |= (st_img[o + k] as u64) << (8 * k);
                            }
                            let initialised = (o < 32 && o + c.width as usize <= 32) || o >= 480;
                            if initialised && want != val {
                                rep.violation(&format!("{prop}:wrong-load:{sigbase}"), format!("stack load returned {val:#x}, expected {want:#x}"), w.clone());
                            }
                        }
                        if !changes.is_empty() {
                            rep.violation(&format!("{prop}:load-wrote:{sigbase}"), format!("a load changed {} bytes of memory", changes.len()), w);
                        } else {
                            rep.count("performed_ok");
                        }
                    } else {
                        // expected new bytes
                        let wv: u64 = match c.acc {
                            Acc::St => ST_IMM as i64 as u64,
                            Acc::Stx => STORE_VAL,
                            _ => 0,
                        };
                        let unknown_value = c.acc == Acc::Stx && c.src_field == 10;
                        if unknown_value {
                            // the frame pointer was stored: only WHERE bytes changed is checked
                            let lo = addr;
                            let hi = addr + c.width as u64;
                            if changes.iter().any(|(a, _)| *a < lo || *a >= hi) {
                                rep.violation(&format!("{prop}:wrong-store:{sigbase}"), format!("store of r10 at {addr:#x} width {} changed bytes outside the addressed ones: {:?}", c.width, changes), w);
                            } else {
                                rep.count("performed_ok");
                            }
                        } else if in_r1rel {
                            // the internal buffer is not in the arena snapshots: nothing else may change
                            if !changes.is_empty() {
                                rep.violation(&format!("{prop}:wrong-store:{sigbase}"), format!("store into the internal buffer changed {} bytes of other memory", changes.len()), w);
                            } else {
                                rep.count("performed_ok");
                            }
                        } else if !in_stack {
                            let mut exp_changes: Vec<(u64, u8)> = Vec::new();
                            let mut old = 0u64;
                            for k in 0..c.width as u64 {
                                old |= (mem_at(addr + k).unwrap_or(0) as u64) << (8 * k);
                            }
                            let newv = if c.acc == Acc::Xadd { old.wrapping_add(STORE_VAL) } else { wv };
                            for k in 0..c.width as u64 {
                                let nb = (newv >> (8 * k)) as u8;
                                if mem_at(addr + k) != Some(nb) {
                                    exp_changes.push((addr + k, nb));
                                }
                            }
                            let mut got = changes.clone();
                            got.sort();
                            exp_changes.sort();
                            if got != exp_changes {
                                rep.violation(&format!("{prop}:wrong-store:{sigbase}"), format!("store at {addr:#x} width {}: bytes changed {:?}, expected {:?}", c.width, got, exp_changes), w);
                            } else {
                                rep.count("performed_ok");
                            }
                        } else {
                            let mut st_img = [0u8; 512];
                            for k in [8usize, 16, 24, 32, 512, 504, 496, 488] {
                                st_img[512 - k..512 - k + 8].copy_from_slice(&(0x0badcafeu64).to_le_bytes());
                            }
                            let o = (addr - stack_addr) as usize;
                            let mut old = 0u64;
                            for k in 0..c.width as usize {
                                old |= (st_img[o + k] as u64) << (8 * k);
                            }
                            let newv = if c.acc == Acc::Xadd { old.wrapping_add(STORE_VAL) } else { wv };
                            for k in 0..c.width as usize {
                                st_img[o + k] = (newv >> (8 * k)) as u8;
                            }
                            let want = stack_fold(&st_img);
                            if want != val || !changes.is_empty() {
                                rep.violation(&format!("{prop}:wrong-store:{sigbase}"), format!("stack store: read-back fold {val:#x}, expected {want:#x}; outside bytes changed: {}", changes.len()), w);
                            } else {
                                rep.count("performed_ok");
                            }
                        }
                    }
                }
                _ => {}
            }
        }
    }
    // Accesses performed and refused while 7 other threads do the same on their own VMs: structured
    // programs (stack spills, packet and metadata loads and stores, refused out-of-region accesses)
    // whose sequential outcome is known, each thread with its own buffers (mon_par.rs)
    if !cfg!(miri) && crate::mon_par::par_mult() > 0 {
        let mut batch = Vec::new();
        for k in 0..(if q { 768 } else { 4096 }) {
            let (c, _) = crate::genp::gen_struct(&mut rng, &crate::genp::StructOpts { allow_helpers: false, ..Default::default() });
            batch.push(crate::diff::pre_run(c, format!("par#{k}"), crate::diff::BUDGET));
        }
        crate::mon_par::exec_par_rounds(rep, prop, &batch, if cl { crate::engines::Engine::Cranelift } else { crate::engines::Engine::Interp }, if cl { 2 } else { 6 });
    }
}
