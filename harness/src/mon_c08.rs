//! C08: helper calls follow the documented contract in every engine.
//! Monitor: instrumented helpers behind naked entry shims record (index, arguments, stack pointer
//! at entry); the recorded log is compared with the call sequence the reference machine predicts.

use crate::diff::*;
use crate::engines::{Engine, Kind};
use crate::exec::*;
use crate::genp::{Builder, Case};
use crate::hlp::LogEntry;
use crate::isa::*;
use crate::refvm::Outcome;
use crate::report::Report;
use crate::sys;
use crate::util::Rng;
use crate::Args;
use serde_json::json;

const IDS: [u32; 9] = [0, 1, 2, 6, 0x7fff_ffff, 0x8000_0000, 0xffff_ffff, 0x1234_5678, 63];

struct Plan {
    case: Case,
    /// the program contains a call to an id that is not registered
    has_unregistered: bool,
    depth: usize,
}

fn gen_helper_prog(rng: &mut Rng, allow_local: bool) -> Plan {
    loop {
        let mut b = Builder::new();
        // registered set
        let mut helpers: Vec<(u32, usize)> = Vec::new();
        for _ in 0..rng.range(1, 5) {
            let id = if rng.chance(1, 5) { rng.next() as u32 } else { *rng.pick(&IDS) };
            if !helpers.iter().any(|(i, _)| *i == id) {
                helpers.push((id, rng.below(8) as usize));
            }
        }
        let unreg: Vec<u32> = IDS.iter().copied().filter(|i| !helpers.iter().any(|(h, _)| h == i)).collect();
        let depth = if allow_local { rng.range(0, 8) as usize } else { 0 };
        let calc = match rng.below(8) {
            0 => crate::genp::CalcSpec::Const(0),
            1 => crate::genp::CalcSpec::Const(8),
            2 => crate::genp::CalcSpec::Const(16),
            3 => crate::genp::CalcSpec::Table(rng.below(16) as u16),
            // frame sizes that are not multiples of 8 or 16 (any u16 is a legal answer)
            4 => crate::genp::CalcSpec::Const(*rng.pick(&[1u16, 4, 7, 12, 20, 24, 33])),
            _ => crate::genp::CalcSpec::None,
        };
        let small_frames = matches!(calc, crate::genp::CalcSpec::Const(_));
        let ncalls = rng.range(1, 20) as usize;
        let use_unreg = rng.chance(1, 6) && !unreg.is_empty();
        let unreg_reached = rng.chance(1, 2);
        let unreg_at = rng.below(ncalls as u64) as usize;
        let mut has_unregistered = false;
        // functions f_0 (main) .. f_depth; calls are distributed over the levels
        let labels: Vec<usize> = (0..=depth).map(|_| b.label()).collect();
        let per_level = (ncalls + depth) / (depth + 1);
        let mut emitted = 0usize;
        for lvl in 0..=depth {
            b.place(labels[lvl]);
            // accumulator in r6; r7..r9 carry tags that must survive helper calls; one stack slot
            if lvl == 0 {
                b.lddw(6, rng.next());
            } else {
                // the argument (caller's accumulator) seeds this level's accumulator
                b.i(MOV64_REG, 6, 1, 0, 0);
                b.i(MUL64_IMM, 6, 0, 0, 0x01000193);
            }
            let t7 = rng.next();
            let t8 = rng.next();
            let t9 = rng.next();
            b.lddw(7, t7);
            b.lddw(8, t8);
            b.lddw(9, t9);
            // default / table frames: room only at the first two levels; tiny constant frames: everywhere
            let slot_ok = lvl < 2 || small_frames;
            if slot_ok {
                b.i(STDW, 10, 0, -8, 0x7e57 + lvl as i32);
            }
            let emit_calls = |b: &mut Builder, rng: &mut Rng, emitted: &mut usize, has_unreg: &mut bool, k: usize| {
                for _ in 0..k {
                    if *emitted >= ncalls {
                        break;
                    }
                    let is_unreg = use_unreg && *emitted == unreg_at;
                    let id = if is_unreg { *rng.pick(&unreg) } else { helpers[rng.below(helpers.len() as u64) as usize].0 };
                    let skip = b.label();
                    if is_unreg {
                        *has_unreg = true;
                        if !unreg_reached {
                            b.j(JA, 0, 0, 0, skip);
                        }
                    }
                    for r in 1..=5u8 {
                        b.lddw(r, rng.interesting_u64().0);
                    }
                    b.i(MOV64_REG, 2, 6, 0, 0); // second argument depends on everything so far
                    b.i(CALL, 0, 0, 0, id as i32);
                    // fold r0, r7..r9 and the slot, and the frame pointer (as a difference)
                    b.i(MUL64_IMM, 6, 0, 0, 0x01000193);
                    b.i(XOR64_REG, 6, 0, 0, 0);
                    b.i(XOR64_REG, 6, 7, 0, 0);
                    b.i(MUL64_IMM, 6, 0, 0, 0x01000193);
                    b.i(XOR64_REG, 6, 8, 0, 0);
                    b.i(XOR64_REG, 6, 9, 0, 0);
                    if slot_ok {
                        b.i(LDXDW, 3, 10, -8, 0);
                        b.i(MUL64_IMM, 6, 0, 0, 0x01000193);
                        b.i(XOR64_REG, 6, 3, 0, 0);
                    }
                    b.place(skip);
                    *emitted += 1;
                }
            };
            let before = per_level / 2;
            emit_calls(&mut b, rng, &mut emitted, &mut has_unregistered, before.max(if lvl == depth { 1 } else { 0 }));
            if lvl < depth {
                // call the next level; r6 (accumulator) is callee-saved
                b.i(MOV64_REG, 1, 6, 0, 0);
                b.call_label(labels[lvl + 1]);
                b.i(MUL64_IMM, 6, 0, 0, 0x01000193);
                b.i(XOR64_REG, 6, 0, 0, 0);
            }
            emit_calls(&mut b, rng, &mut emitted, &mut has_unregistered, per_level - before);
            if lvl == 0 {
                // remaining calls
                let rest = ncalls.saturating_sub(emitted);
                if depth == 0 {
                    emit_calls(&mut b, rng, &mut emitted, &mut has_unregistered, rest);
                }
            }
            b.i(MOV64_REG, 0, 6, 0, 0);
            b.exit();
        }
        let Some(prog) = b.assemble() else { continue };
        // all four VM kinds: each wrapper forwards register_helper / calculators on its own
        let kind = *rng.pick(&[Kind::NoData, Kind::NoData, Kind::Raw, Kind::Mbuff, Kind::Fixed]);
        let mut c = Case::new(kind, prog, "helpers");
        if kind != Kind::NoData {
            c.pkt = rng.bytes(16);
        }
        if kind == Kind::Mbuff {
            c.mbuff = vec![0; 16];
        }
        c.helpers = helpers;
        c.calc = calc;
        return Plan { case: c, has_unregistered, depth };
    }
}

fn expected_log(p: &Pre) -> Vec<LogEntry> {
    p.rr
        .helper_log
        .iter()
        .map(|h| {
            let j = p.case.helpers.iter().find(|(i, _)| *i == h.id).map(|(_, j)| *j as u64).unwrap_or(99);
            LogEntry { j, args: h.args, rsp: 0 }
        })
        .collect()
}

/// compare a recorded log with the predicted one; returns Some((kind, detail))
fn compare_log(want: &[LogEntry], got: &[LogEntry], check_rsp: bool) -> Option<(String, String)> {
    if got.len() != want.len() {
        return Some(("call-count".into(), format!("{} helper invocations recorded, {} predicted", got.len(), want.len())));
    }
    for (i, (w, g)) in want.iter().zip(got.iter()).enumerate() {
        if w.j != g.j {
            return Some(("wrong-helper".into(), format!("call #{i}: helper function #{} ran, #{} is registered under the called id", g.j, w.j)));
        }
        if w.args != g.args {
            let which: Vec<usize> = (0..5).filter(|k| w.args[*k] != g.args[*k]).map(|k| k + 1).collect();
            return Some((format!("arguments:{which:?}"), format!("call #{i}: arguments {:x?}, expected {:x?}", g.args, w.args)));
        }
        if check_rsp && g.rsp % 16 != 8 {
            return Some(("stack-misaligned".into(), format!("call #{i}: stack pointer at helper entry {:#x} is not congruent to 8 modulo 16 (the C ABI requires 16-byte alignment at the call)", g.rsp)));
        }
    }
    None
}

pub fn run(a: &Args, rep: &mut Report) {
    let mut rng = Rng::derive(a.seed, a.shard, 8);
    let q = a.tier == "quick";
    let n = ((if q { 120_000.0 } else { 6_000_000.0 }) * a.scale) as u64 / a.nshards;
    INTERP_FAMILY.store(1, std::sync::atomic::Ordering::Relaxed);
    let mut batch: Vec<(Pre, Plan)> = Vec::new();
    let engines: Vec<Engine> = if cfg!(feature = "std") { vec![Engine::Jit, Engine::Cranelift] } else { vec![Engine::Jit] };
    for k in 0..n {
        let plan = gen_helper_prog(&mut rng, k % 3 != 0);
        let pre = pre_run(plan.case.clone(), format!("h#{k}"), 400_000);
        rep.set("depths", format!("{}", plan.depth));
        for (id, _) in &plan.case.helpers {
            rep.set("helper_ids", format!("{id:#x}"));
        }
        batch.push((pre, plan));
        if batch.len() < 256 && k + 1 != n {
            continue;
        }
        // ---- interpreter ----
        for (p, plan) in &batch {
            rep.case(Some(p.case.hash()));
            rep.add("helper_calls_predicted", p.rr.helper_log.len() as u64);
            let want = expected_log(p);
            let w = |extra: serde_json::Value| witness(p, extra);
            if let Some(m) = &p.ir.repeat_mismatch {
                rep.violation("C08:interp:history-dependence", m.clone(), w(json!({})));
                continue;
            }
            match (&p.rr.outcome, &p.ir.ran) {
                (_, Ran::Panic(m)) => rep.violation("C08:interp:panic", format!("interpreter panicked: {m}"), w(json!({}))),
                (Outcome::Value(v), Ran::Ok(x)) => {
                    if let Some((kind, d)) = compare_log(&want, &p.ir.helper_log, true) {
                        rep.violation(&format!("C08:interp:{kind}"), d, w(json!({"log": format!("{:x?}", p.ir.helper_log)})));
                    } else if v != x {
                        rep.violation("C08:interp:result-or-registers", format!("helper log is right but the folded value (r0 results, r6-r10, stack slot) is {x:#x}, expected {v:#x}"), w(json!({})));
                    } else {
                        rep.count("interp_ok");
                    }
                }
                (Outcome::UnknownHelper { id, .. }, Ran::Err(_)) => {
                    // nothing else may have run after the unknown call
                    if let Some((kind, d)) = compare_log(&want, &p.ir.helper_log, true) {
                        rep.violation(&format!("C08:interp:unknown-id:{kind}"), d, w(json!({"id": id})));
                    } else {
                        rep.count("interp_unknown_id_err");
                    }
                }
                (Outcome::UnknownHelper { id, .. }, Ran::Ok(x)) => rep.violation("C08:interp:unknown-id-executed", format!("calling unregistered id {id:#x} returned Ok({x:#x}); helpers run: {:x?}", p.ir.helper_log), w(json!({}))),
                (Outcome::Value(v), Ran::Err(e)) => {
                    let _ = v;
                    rep.violation(if plan.has_unregistered { "C08:interp:unreached-unknown-id-refused" } else { "C08:interp:err" }, format!("interpreter returned Err({e}) for a program whose calls are all registered or unreached"), w(json!({})))
                }
                _ => rep.count("interp_other"),
            }
        }
        // ---- compiled engines ----
        for e in &engines {
            let elig: Vec<&(Pre, Plan)> = batch.iter().filter(|(p, _)| *e != Engine::Cranelift || !has_local_call(&p.case.prog)).collect();
            let pairs: Vec<(&Case, &Bufs)> = elig.iter().map(|(p, _)| (&p.case, &p.bufs)).collect();
            let ends = run_compiled(&pairs, *e, if *e == Engine::Jit { Family::Hostile } else { Family::Gentle });
            for ((p, plan), end) in elig.iter().zip(ends.iter()) {
                let en = e.name();
                rep.count(&format!("{en}_cases"));
                let want = expected_log(p);
                let w = |extra: serde_json::Value| witness(p, json!({"engine": en, "extra": extra}));
                match end {
                    EngineEnd::Inconclusive(s) => rep.inconclusive(s.clone()),
                    EngineEnd::Signal(s) => rep.violation(&format!("C08:{en}:signal-{}", crate::sys::signame(*s)), format!("{en} code died with {} in a program that only calls helpers", crate::sys::signame(*s)), w(json!({}))),
                    EngineEnd::Diverged => rep.violation(&format!("C08:{en}:diverged"), "did not terminate".into(), w(json!({}))),
                    EngineEnd::Rec(r) => {
                        if r.soaked > 0 {
                            rep.count("soaked_compiled_cases");
                            rep.add("soak_extra_executions_and_recompilations_on_one_compiled_vm", r.soaked as u64);
                        }
                        if plan.has_unregistered {
                            // compile time error expected, whether or not the call is reachable
                            match r.status {
                                1 => rep.count(&format!("{en}_unknown_id_compile_err")),
                                2 => rep.violation(&format!("C08:{en}:compile-panic"), r.msg.clone(), w(json!({}))),
                                _ => rep.violation(&format!("C08:{en}:unknown-id-compiled"), format!("{en} compiled a program that calls an unregistered helper id (status {}, helpers run: {:x?})", r.status, r.log), w(json!({}))),
                            }
                            continue;
                        }
                        match (&p.rr.outcome, r.status) {
                            (Outcome::Value(v), 0) => {
                                if let Some((kind, d)) = compare_log(&want, &r.log, true) {
                                    rep.violation(&format!("C08:{en}:{kind}"), d, w(json!({"log": format!("{:x?}", r.log)})));
                                } else if r.value != *v {
                                    rep.violation(&format!("C08:{en}:result-or-registers"), format!("helper log is right but the folded value is {:#x}, expected {v:#x}", r.value), w(json!({})));
                                } else {
                                    rep.count(&format!("{en}_ok"));
                                    rep.add("helper_calls_observed_compiled", r.log.len() as u64);
                                }
                            }
                            (Outcome::Value(_), 1) => rep.violation(&format!("C08:{en}:compile-err"), format!("{en} refused a program whose helpers are all registered: {}", r.msg), w(json!({}))),
                            (Outcome::Value(_), 2) => rep.violation(&format!("C08:{en}:compile-panic"), r.msg.clone(), w(json!({}))),
                            (Outcome::Value(_), 6) => rep.violation(&format!("C08:{en}:history-dependence"), r.msg.clone(), w(json!({}))),
                            _ => rep.count(&format!("{en}_other")),
                        }
                    }
                }
            }
        }
        if rep.want_sample() {
            if let Some((p, _)) = batch.first() {
                rep.sample(json!({"case": p.case.to_json(), "predicted_calls": p.rr.helper_log.len(), "interp_log_head": format!("{:x?}", p.ir.helper_log.iter().take(2).collect::<Vec<_>>())}));
            }
        }
        batch.clear();
    }
    INTERP_FAMILY.store(0, std::sync::atomic::Ordering::Relaxed);
    if (a.shard % 4 == 0 || a.nshards <= 4) && !cfg!(miri) && crate::mon_par::par_mult() > 0 {
        concurrent_helpers(rep, &mut rng, (if q { 150 } else { 1500 }) * crate::mon_par::par_mult());
    }
}

static SLOW_CALLS: std::sync::atomic::AtomicU64 = std::sync::atomic::AtomicU64::new(0);
/// Deliberately slow, pure helpers: many threads are inside them at the same time. Four different
/// functions, all registered under the SAME id by different VMs.
fn slow(j: u64, a: [u64; 5]) -> u64 {
    SLOW_CALLS.fetch_add(1, std::sync::atomic::Ordering::Relaxed);
    let t0 = std::time::Instant::now();
    while t0.elapsed().as_micros() < 40 {
        std::hint::spin_loop();
    }
    crate::hlp::value(j, a)
}
fn slow0(a1: u64, a2: u64, a3: u64, a4: u64, a5: u64) -> u64 {
    slow(0, [a1, a2, a3, a4, a5])
}
fn slow1(a1: u64, a2: u64, a3: u64, a4: u64, a5: u64) -> u64 {
    slow(1, [a1, a2, a3, a4, a5])
}
fn slow2(a1: u64, a2: u64, a3: u64, a4: u64, a5: u64) -> u64 {
    slow(2, [a1, a2, a3, a4, a5])
}
fn slow3(a1: u64, a2: u64, a3: u64, a4: u64, a5: u64) -> u64 {
    slow(3, [a1, a2, a3, a4, a5])
}
const SLOW: [fn(u64, u64, u64, u64, u64) -> u64; 4] = [slow0, slow1, slow2, slow3];

/// 24 threads (more than any fixed limit of 8 or 16 inside the crate), each with its own VM and
/// engine, all calling a slow helper at the same time: every call must reach the registered
/// function with its own arguments and return its value.
fn concurrent_helpers(rep: &mut Report, rng: &mut Rng, iters: usize) {
    const T: usize = 24;
    let id = 3u32;
    let progs: Vec<(Vec<u8>, [u64; 5], u64)> = (0..T)
        .map(|t| {
            let args = [rng.below(1 << 31), rng.below(1 << 31), t as u64, rng.below(1 << 31), 7];
            let mut v: Vec<Insn> = Vec::new();
            for (i, x) in args.iter().enumerate() {
                v.push(Insn::new(MOV64_IMM, i as u8 + 1, 0, 0, *x as i32));
            }
            v.push(Insn::new(MOV64_IMM, 6, 0, 0, 0x600 + t as i32));
            v.push(Insn::new(CALL, 0, 0, 0, id as i32));
            v.push(Insn::new(ADD64_REG, 0, 6, 0, 0));
            v.push(Insn::new(EXIT, 0, 0, 0, 0));
            (encode_prog(&v), args, crate::hlp::value((t / 4 % 4) as u64, args).wrapping_add(0x600 + t as u64))
        })
        .collect();
    let ends = sys::run_batch(1, 600, 600, |_i, out| {
        crate::engines::hooks::unlimited();
        let bad: std::sync::Mutex<Vec<String>> = std::sync::Mutex::new(Vec::new());
        let barrier = std::sync::Barrier::new(T);
        std::thread::scope(|sc| {
            for (t, (prog, _args, want)) in progs.iter().enumerate() {
                let (bad, barrier) = (&bad, &barrier);
                sc.spawn(move || {
                    let engine = [Engine::Interp, Engine::Interp, Engine::Jit, if cfg!(feature = "std") { Engine::Cranelift } else { Engine::Interp }][t % 4];
                    let r = (|| -> Result<(), String> {
                        let mut vm = crate::engines::Vm::new(Kind::NoData, Some(prog), (0, 8))?;
                        // (engine = t % 4, function = t / 4 % 4: every engine meets every function)
                        vm.register_helper(id, SLOW[t / 4 % 4])?;
                        match engine {
                            Engine::Jit => {
                                #[cfg(not(any(feature = "std", feature = "stdlite")))]
                                {
                                    let _ = vm.set_jit_exec_memory(crate::exec::exec_memory(1 << 16));
                                }
                                vm.jit_compile()?
                            }
                            #[cfg(feature = "std")]
                            Engine::Cranelift => vm.cl_compile()?,
                            _ => {}
                        }
                        barrier.wait();
                        for k in 0..iters {
                            // every 50th iteration: a new VM, compiled while the others run
                            if k % 50 == 49 && engine != Engine::Interp {
                                vm = crate::engines::Vm::new(Kind::NoData, Some(prog), (0, 8))?;
                                vm.register_helper(id, SLOW[t / 4 % 4])?;
                                match engine {
                                    Engine::Jit => {
                                        #[cfg(not(any(feature = "std", feature = "stdlite")))]
                                        {
                                            let _ = vm.set_jit_exec_memory(crate::exec::exec_memory(1 << 16));
                                        }
                                        vm.jit_compile()?
                                    }
                                    #[cfg(feature = "std")]
                                    Engine::Cranelift => vm.cl_compile()?,
                                    _ => {}
                                }
                            }
                            let none = (std::ptr::null_mut(), 0);
                            let got = match engine {
                                Engine::Jit => unsafe { vm.exec_jit(none, none) },
                                #[cfg(feature = "std")]
                                Engine::Cranelift => vm.exec_cl(none, none),
                                _ => vm.exec(none, none),
                            };
                            if got != Ok(*want) {
                                return Err(format!("thread {t} ({}) execution {k}: {:x?}, expected Ok({want:#x})", engine.name(), got));
                            }
                        }
                        Ok(())
                    })();
                    if let Err(e) = r {
                        bad.lock().unwrap().push(e);
                    }
                });
            }
        });
        let bad = bad.into_inner().unwrap();
        out.extend_from_slice(&SLOW_CALLS.load(std::sync::atomic::Ordering::Relaxed).to_le_bytes());
        out.extend_from_slice(bad.join("\n").as_bytes());
    });
    rep.set("concurrent_workloads", "24 threads inside a slow helper");
    match &ends[0] {
        sys::CaseEnd::Done(b) if b.len() >= 8 => {
            let calls = u64::from_le_bytes(b[0..8].try_into().unwrap());
            rep.add("concurrent_helper_calls", calls);
            let msg = String::from_utf8_lossy(&b[8..]).to_string();
            if !msg.is_empty() {
                rep.violation("C08:concurrent:helper-call", format!("{T} threads, each with its own VM, calling a registered helper at the same time: {}", msg.lines().next().unwrap_or("")), json!({"kind": "concurrent-session", "what": "helpers", "deviations": msg.lines().take(5).collect::<Vec<_>>()}));
            } else if calls != (T * iters) as u64 {
                rep.violation("C08:concurrent:helper-call-count", format!("{} helper invocations for {} executions", calls, T * iters), json!({"kind": "concurrent-session", "what": "helpers"}));
            }
        }
        sys::CaseEnd::Died(sg, _) => rep.violation(&format!("C08:concurrent:signal-{}", sys::signame(*sg)), format!("{T} threads calling helpers: killed by {}", sys::signame(*sg)), json!({"kind": "concurrent-session", "what": "helpers"})),
        sys::CaseEnd::Done(_) => rep.inconclusive("concurrent helpers: short record".into()),
        sys::CaseEnd::CpuTimeout => rep.inconclusive("concurrent helpers: cpu limit".into()),
        sys::CaseEnd::Inconclusive(x) => rep.inconclusive(format!("concurrent helpers: {x}")),
    }
}
