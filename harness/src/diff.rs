//! Differential pipeline: real interpreter vs reference machine (C01), compiled engines vs
//! interpreter gated by the reference machine (C03, C04).

use crate::engines::Engine;
use crate::exec::*;
use crate::genp::Case;
use crate::isa::*;
use crate::refvm::Outcome;
use crate::report::Report;
use crate::sys;
use serde_json::json;

pub const BUDGET: u64 = 3_000_000;

pub struct Pre {
    pub case: Case,
    pub bufs: Bufs,
    pub ir: InterpRun,
    pub rr: RefRun,
    pub tag: String,
}

pub fn pre_run(case: Case, tag: String, budget: u64) -> Pre {
    let bufs = Bufs::new(&case);
    let ir = run_interp(&case, &bufs, budget, 64);
    let rr = run_ref(&case, &bufs, &ir, budget, 64, Vec::new());
    Pre { case, bufs, ir, rr, tag }
}

fn culprit(case: &Case) -> String {
    // distinct "interesting" mnemonics of the (minimised) program
    let mut names: Vec<String> = Vec::new();
    let n = case.prog.len() / 8;
    let mut pc = 0;
    while pc < n {
        let i = decode_at(&case.prog, pc);
        if i.opc == LDDW {
            pc += 2;
            continue;
        }
        pc += 1;
        if i.opc == JA && i.off == 0 {
            continue;
        }
        if matches!(i.opc, MOV64_IMM | MOV64_REG | EXIT) {
            continue;
        }
        let mut m = mnemonic(i.opc, i.src).unwrap_or_else(|| format!("op{:#x}", i.opc));
        if let Some(info) = op_info(i.opc) {
            match info.shape {
                Shape::AluReg | Shape::JmpReg => m.push_str(".reg"),
                Shape::AluImm | Shape::JmpImm => m.push_str(".imm"),
                Shape::Endian => m.push_str(&format!("{}", i.imm)),
                _ => {}
            }
        }
        if !names.contains(&m) {
            names.push(m);
        }
    }
    names.sort();
    names.truncate(4);
    if names.is_empty() { "mov/exit".into() } else { names.join(",") }
}

/// Greedy minimisation: replace instructions by `ja +0` while `still_fails` holds.
pub fn minimise<F: Fn(&Case) -> bool>(case: &Case, still_fails: F, max_evals: usize) -> Case {
    let mut cur = case.clone();
    let n = cur.prog.len() / 8;
    if n > 400 {
        return cur;
    }
    let nop = Insn::new(JA, 0, 0, 0, 0).bytes();
    // instruction start pcs (lddw occupies two slots)
    let mut starts: Vec<(usize, usize)> = Vec::new();
    let mut pc = 0;
    while pc < n {
        let i = decode_at(&cur.prog, pc);
        let width = if i.opc == LDDW && pc + 1 < n { 2 } else { 1 };
        starts.push((pc, width));
        pc += width;
    }
    let mut evals = 0;
    // consumers first (reverse order), then repeat until nothing more can be removed
    loop {
        let mut changed = false;
        for &(pc, width) in starts.iter().rev() {
            if evals >= max_evals {
                return cur;
            }
            let i = decode_at(&cur.prog, pc);
            if i.opc == EXIT || (i.opc == JA && i.off == 0) {
                continue;
            }
            let mut cand = cur.clone();
            for k in 0..width {
                cand.prog[(pc + k) * 8..(pc + k) * 8 + 8].copy_from_slice(&nop);
            }
            evals += 1;
            if still_fails(&cand) {
                cur = cand;
                changed = true;
            }
        }
        if !changed {
            break;
        }
    }
    cur
}

/// If the interpreter's observed behaviour is reproduced exactly by the reference machine under the
/// alternative "unsigned jump immediates are zero-extended" semantics, return the names of the
/// instructions at which that semantics made the difference (known finding attribution).
pub fn explained_by_alt(p: &Pre) -> Option<String> {
    let rr = run_ref_alt(&p.case, &p.bufs, &p.ir, BUDGET, 64, Vec::new(), true);
    if rr.alt_diverged.is_empty() {
        return None;
    }
    let names = {
        let mut v: Vec<String> = rr.alt_diverged.iter().map(|o| format!("{}.imm", mnemonic(*o, 0).unwrap_or_default())).collect();
        v.sort();
        v.join(",")
    };
    let q = Pre { case: p.case.clone(), bufs: Bufs::new(&p.case), ir: clone_ir(&p.ir), rr, tag: String::new() };
    if matches!(q.rr.outcome, Outcome::Value(_)) && c01_verdict(&q).is_none() { Some(names) } else { None }
}

fn clone_ir(ir: &InterpRun) -> InterpRun {
    InterpRun {
        ran: match &ir.ran {
            Ran::Ok(v) => Ran::Ok(*v),
            Ran::Err(e) => Ran::Err(e.clone()),
            Ran::Panic(e) => Ran::Panic(e.clone()),
            Ran::Rejected(e) => Ran::Rejected(e.clone()),
        },
        steps: ir.steps,
        pc_hash: ir.pc_hash,
        max_pc: ir.max_pc,
        stack_addr: ir.stack_addr,
        mbuff_addr: ir.mbuff_addr,
        mbuff_len: ir.mbuff_len,
        pkt_after: ir.pkt_after.clone(),
        mbuff_after: ir.mbuff_after.clone(),
        trace: ir.trace.clone(),
        helper_log: ir.helper_log.clone(),
        budget_hit: ir.budget_hit,
        repeat_mismatch: ir.repeat_mismatch.clone(),
    }
}

/// C01 verdict for one pre-run case. Returns Some(kind) if it is a violation.
pub fn c01_verdict(p: &Pre) -> Option<(String, String)> {
    match (&p.rr.outcome, &p.ir.ran) {
        (_, Ran::Panic(m)) => Some(("panic".into(), format!("interpreter panicked: {m}"))),
        (_, Ran::Rejected(_)) => None,
        (Outcome::Value(v), Ran::Ok(x)) => {
            if v != x {
                return Some(("value".into(), format!("interpreter returned {x:#x}, ISA semantics give {v:#x}")));
            }
            if !masked_eq(&p.rr.pkt_after, &p.rr.pkt_mask, &p.ir.pkt_after) {
                return Some(("pkt-bytes".into(), format!("packet bytes differ: interp {} / ref {}", crate::util::hex(&p.ir.pkt_after), crate::util::hex(&p.rr.pkt_after))));
            }
            if !masked_eq(&p.rr.mbuff_after, &p.rr.mbuff_mask, &p.ir.mbuff_after) {
                return Some(("mbuff-bytes".into(), "metadata buffer bytes differ".into()));
            }
            if let Some(m) = &p.ir.repeat_mismatch {
                return Some(("history-dependence".into(), format!("result depends on an earlier execution: {m}")));
            }
            if p.rr.steps != p.ir.steps || p.rr.pc_hash != p.ir.pc_hash {
                return Some((
                    "pc-trace".into(),
                    format!("executed pc sequence differs: interp {} steps {:?}.. / ref {} steps {:?}..", p.ir.steps, &p.ir.trace, p.rr.steps, &p.rr.trace),
                ));
            }
            None
        }
        (Outcome::Value(v), Ran::Err(e)) => Some(("err-instead-of-value".into(), format!("interpreter returned Err({e}) where the ISA gives {v:#x}"))),
        _ => None,
    }
}

pub fn note_coverage(rep: &mut Report, p: &Pre) {
    for o in 0..256usize {
        if p.rr.executed[o] > 0 {
            rep.set("opcodes_executed", format!("{:#04x}", o));
        }
        if p.rr.br_taken[o] > 0 {
            rep.set("branch_outcomes", format!("{:#04x}:taken", o));
        }
        if p.rr.br_not[o] > 0 {
            rep.set("branch_outcomes", format!("{:#04x}:not", o));
        }
    }
    rep.max("max_pc_executed", p.rr.max_pc as u64);
    rep.max("max_abs_jump_executed", p.rr.max_jump as u64);
    rep.max("max_call_depth", p.rr.max_depth as u64);
    rep.max("max_steps", p.rr.steps);
    rep.set("vm_kinds", p.case.kind.name());
    match &p.rr.outcome {
        Outcome::Value(_) => rep.count("ref_clean_value"),
        Outcome::OutOfClaim(w) => {
            rep.count("out_of_claim");
            rep.set("out_of_claim_reasons", *w);
        }
        Outcome::Oob { .. } => rep.count("ref_oob"),
        Outcome::Misaligned { .. } => rep.count("ref_misaligned"),
        Outcome::DepthExceeded { .. } => rep.count("ref_depth_exceeded"),
        Outcome::UnknownHelper { .. } => rep.count("ref_unknown_helper"),
        Outcome::Budget => rep.count("ref_budget"),
        Outcome::Illegal(w, _) => {
            rep.count("ref_illegal");
            rep.set("ref_illegal_reasons", *w);
        }
    }
}

pub fn witness(p: &Pre, extra: serde_json::Value) -> serde_json::Value {
    json!({
        "kind": "exec-case",
        "tag": p.tag,
        "case": p.case.to_json(),
        "interp": p.ir.ran.short(),
        "ref": format!("{:?}", p.rr.outcome),
        "extra": extra,
    })
}

/// Check a batch for C01 (interpreter vs reference machine).
pub fn check_c01(rep: &mut Report, batch: &[Pre]) {
    check_interp(rep, "C01", batch, false)
}

/// `strict_err`: also require Err (no value, no panic) where the reference machine predicts an
/// error outcome (nesting depth exceeded, access outside the regions).
pub fn check_interp(rep: &mut Report, prop: &str, batch: &[Pre], strict_err: bool) {
    for p in batch {
        let nontrivial = matches!(p.rr.outcome, Outcome::Value(_));
        rep.case(if nontrivial { Some(p.case.hash()) } else { None });
        note_coverage(rep, p);
        if rep.want_sample() && nontrivial && rep.get("evaluations") % 97 == 1 {
            rep.sample(witness(p, json!({"steps": p.rr.steps})));
        }
        if strict_err {
            let want_err = match &p.rr.outcome {
                Outcome::DepthExceeded { .. } => Some("depth-exceeded"),
                Outcome::Oob { .. } => Some("stack-or-region-overrun"),
                _ => None,
            };
            if let Some(what) = want_err {
                rep.count(&format!("expected_err_{what}"));
                match &p.ir.ran {
                    Ran::Err(_) => rep.count("err_as_expected"),
                    Ran::Ok(v) => rep.violation(&format!("{prop}:interp:no-error:{what}"), format!("the reference machine predicts an error ({:?}) but the interpreter returned Ok({v:#x})", p.rr.outcome), witness(p, json!({}))),
                    Ran::Panic(m) => rep.violation(&format!("{prop}:interp:panic:{what}"), format!("interpreter panicked instead of returning an error: {m}"), witness(p, json!({}))),
                    Ran::Rejected(_) => {}
                }
                continue;
            }
        }
        if let Some((kind, detail)) = c01_verdict(p) {
            if let Some(ops) = explained_by_alt(p) {
                let sig = format!("{prop}:interp:known-alt:unsigned-jmp-imm-zero-extended:{ops}");
                rep.violation(&sig, format!("{detail} [behaviour reproduced exactly by zero-extending the immediate of {ops}]"), witness(p, json!({})));
                continue;
            }
            let sigbase = format!("{prop}:interp:{kind}");
            // minimise (cheap: in-process)
            let want = kind.clone();
            let min = minimise(
                &p.case,
                |c| {
                    let q = pre_run(c.clone(), String::new(), BUDGET);
                    matches!(c01_verdict(&q), Some((k, _)) if k == want)
                },
                300,
            );
            let q = pre_run(min, p.tag.clone(), BUDGET);
            if let Some(ops) = explained_by_alt(&q) {
                let sig = format!("{prop}:interp:known-alt:unsigned-jmp-imm-zero-extended:{ops}");
                rep.violation(&sig, format!("{detail} [minimised program reproduced exactly by zero-extending the immediate of {ops}]"), witness(&q, json!({"original": p.case.to_json()})));
                continue;
            }
            let sig = format!("{sigbase}:{}", culprit(&q.case));
            let d2 = c01_verdict(&q).map(|x| x.1).unwrap_or(detail.clone());
            rep.violation(&sig, d2, witness(&q, json!({"original": p.case.to_json()})));
        }
    }
}

#[derive(Clone, Debug, PartialEq, Eq)]
pub struct Mismatch {
    pub kind: String,
    pub detail: String,
}

/// Compare a compiled-engine outcome with the interpreter outcome for a clean case.
pub fn compare_engine(p: &Pre, e: &EngineEnd, engine: Engine) -> Result<Option<Mismatch>, String> {
    let Ran::Ok(iv) = &p.ir.ran else { return Ok(None) };
    let mm = |k: &str, d: String| Ok(Some(Mismatch { kind: k.into(), detail: d }));
    match e {
        EngineEnd::Inconclusive(s) => Err(s.clone()),
        EngineEnd::Signal(s) => mm(&format!("signal-{}", sys::signame(*s)), format!("{} code was killed by {} on an in-bounds program (interpreter: {iv:#x})", engine.name(), sys::signame(*s))),
        EngineEnd::Diverged => mm("diverged", format!("{} code did not terminate within the CPU-time limit; interpreter finished in {} steps", engine.name(), p.ir.steps)),
        EngineEnd::Rec(r) => match r.status {
            0 => {
                if r.value != *iv {
                    return mm("value", format!("{} returned {:#x}, interpreter {iv:#x}", engine.name(), r.value));
                }
                if !masked_eq(&p.ir.pkt_after, &p.rr.pkt_mask, &r.pkt) {
                    return mm("pkt-bytes", format!("packet bytes differ: {} {} / interp {}", engine.name(), crate::util::hex(&r.pkt), crate::util::hex(&p.ir.pkt_after)));
                }
                if !masked_eq(&p.ir.mbuff_after, &p.rr.mbuff_mask, &r.mbuff) {
                    return mm("mbuff-bytes", "metadata buffer bytes differ".into());
                }
                if !r.canary_ok {
                    return mm("canary", "bytes around the packet/metadata buffer changed".into());
                }
                Ok(None)
            }
            1 => mm("compile-err", format!("{} compilation refused a verified program: {}", engine.name(), r.msg)),
            2 => mm("compile-panic", format!("{} compilation panicked: {}", engine.name(), r.msg)),
            3 => mm("exec-err", format!("{} execution returned Err: {}", engine.name(), r.msg)),
            4 => mm("exec-panic", format!("{} execution panicked: {}", engine.name(), r.msg)),
            6 => mm("history-dependence", format!("{}: {}", engine.name(), r.msg)),
            _ => Ok(None),
        },
    }
}

/// Which engine deviates from the reference machine?
fn deviant(p: &Pre) -> &'static str {
    match (&p.rr.outcome, &p.ir.ran) {
        (Outcome::Value(v), Ran::Ok(x)) if v == x => "engine-deviates",
        _ => "interp-deviates",
    }
}

pub fn check_compiled(rep: &mut Report, prop: &str, batch: &[Pre], engine: Engine, family: Family) {
    // eligible: reference says clean value, interpreter returned a value
    let elig: Vec<&Pre> = batch
        .iter()
        .filter(|p| {
            // (the fixed-overlap probes are address independent by construction although the taint
            // analysis cannot prove it; engines are compared with the interpreter in the same
            // address space)
            (matches!(p.rr.outcome, Outcome::Value(_)) || p.case.class == "micro/fixed-overlap")
                && matches!(p.ir.ran, Ran::Ok(_))
                && !p.rr.neg_ldabs
                && (engine != Engine::Cranelift || !has_local_call(&p.case.prog))
        })
        .collect();
    for p in batch {
        let e = elig.iter().any(|q| std::ptr::eq(*q, p));
        rep.case(if e { Some(p.case.hash()) } else { None });
        note_coverage(rep, p);
    }
    let pairs: Vec<(&Case, &Bufs)> = elig.iter().map(|p| (&p.case, &p.bufs)).collect();
    let ends = run_compiled(&pairs, engine, family);
    for (p, e) in elig.iter().zip(ends.iter()) {
        rep.count("compiled_runs");
        if let EngineEnd::Rec(r) = e {
            if r.soaked > 0 {
                rep.count("soaked_compiled_cases");
                rep.add("soak_extra_executions_and_recompilations_on_one_compiled_vm", r.soaked as u64);
            }
        }
        if rep.want_sample() && rep.get("compiled_runs") % 101 == 1 {
            rep.sample(witness(p, json!({"engine": engine.name()})));
        }
        match compare_engine(p, e, engine) {
            Err(s) => rep.inconclusive(format!("{}: {s}", p.tag)),
            Ok(None) => rep.count("agree"),
            Ok(Some(m)) => {
                // is the interpreter the deviating side, in the way a known finding describes?
                if c01_verdict(p).is_some() {
                    if let (Some(ops), EngineEnd::Rec(r), Outcome::Value(v)) = (explained_by_alt(p), e, &p.rr.outcome) {
                        let eng_ok = r.status == 0 && r.value == *v && masked_eq(&p.rr.pkt_after, &p.rr.pkt_mask, &r.pkt) && masked_eq(&p.rr.mbuff_after, &p.rr.mbuff_mask, &r.mbuff);
                        if eng_ok {
                            let sig = format!("{prop}:{}:known-alt:interp-unsigned-jmp-imm-zero-extended:{ops}", engine.name());
                            rep.violation(&sig, format!("{} [{} follows the ISA; the interpreter's result is reproduced by zero-extending the immediate of {ops}]", m.detail, engine.name()), witness(p, json!({"engine": engine.name()})));
                            continue;
                        }
                    }
                }
                let want = m.kind.clone();
                // minimise, re-running the whole comparison in a fresh child per candidate
                let min = if rep.sig_count_prefix(&format!("{prop}:{}:{}", engine.name(), m.kind)) < 6 {
                    minimise(
                        &p.case,
                        |c| {
                            let q = pre_run(c.clone(), String::new(), BUDGET);
                            if !matches!(q.rr.outcome, Outcome::Value(_)) || !matches!(q.ir.ran, Ran::Ok(_)) {
                                return false;
                            }
                            let e = run_compiled_lim(&[(&q.case, &q.bufs)], engine, family, 4, 4);
                            matches!(compare_engine(&q, &e[0], engine), Ok(Some(m2)) if m2.kind == want)
                        },
                        250,
                    )
                } else {
                    p.case.clone()
                };
                let q = pre_run(min, p.tag.clone(), BUDGET);
                let sig = format!("{prop}:{}:{}:{}:{}", engine.name(), m.kind, deviant(&q), culprit(&q.case));
                rep.violation(&sig, m.detail.clone(), witness(&q, json!({"engine": engine.name(), "family": format!("{family:?}"), "original": p.case.to_json()})));
            }
        }
    }
}

pub fn has_local_call(prog: &[u8]) -> bool {
    let n = prog.len() / 8;
    let mut pc = 0;
    while pc < n {
        let i = decode_at(prog, pc);
        if i.opc == LDDW {
            pc += 2;
            continue;
        }
        if i.opc == CALL && i.src == 1 {
            return true;
        }
        pc += 1;
    }
    false
}

pub fn has_helper_call(prog: &[u8]) -> bool {
    let n = prog.len() / 8;
    let mut pc = 0;
    while pc < n {
        let i = decode_at(prog, pc);
        if i.opc == LDDW {
            pc += 2;
            continue;
        }
        if i.opc == CALL && i.src == 0 {
            return true;
        }
        pc += 1;
    }
    false
}
