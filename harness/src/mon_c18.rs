//! C18: atomic add really is atomic under concurrent executions.
//! N threads released by a barrier run K atomic adds each on one shared word (any mix of
//! engines); after each add an observer helper does an ATOMIC load of the word and appends it to
//! a thread-local log. Offline checker: conservation (final = initial + sum of addends mod
//! 2^width), neighbours untouched, per-thread monotonicity and lower bounds.

use crate::engines::{Engine, Kind, Vm};
use crate::isa::*;
use crate::report::Report;
use crate::sys::{self, CaseEnd, GuardBuf};
use crate::util::{hex, Rng};
use crate::Args;
use serde_json::json;
use std::cell::RefCell;
use std::sync::atomic::{AtomicU32, AtomicU64, Ordering};
use std::sync::{Arc, Barrier};

thread_local! {
    static OBS: RefCell<Vec<u64>> = const { RefCell::new(Vec::new()) };
}

static OBS_WIDTH: AtomicU32 = AtomicU32::new(8);

/// observer helper: a1 = address of the shared word
fn observer(a1: u64, _a2: u64, _a3: u64, _a4: u64, _a5: u64) -> u64 {
    let v = if OBS_WIDTH.load(Ordering::Relaxed) == 4 {
        unsafe { (*(a1 as *const AtomicU32)).load(Ordering::Relaxed) as u64 }
    } else {
        unsafe { (*(a1 as *const AtomicU64)).load(Ordering::Relaxed) }
    };
    OBS.with(|o| {
        let mut o = o.borrow_mut();
        if o.len() < 1 << 22 {
            o.push(v);
        }
    });
    0
}

fn worker_prog(addr: u64, width: u8, addend: u64, iters: u32, observe: bool) -> Vec<u8> {
    worker_prog_regs(addr, width, addend, iters, observe, 6, 7, 0, 1)
}

/// `base`/`src` registers and the offset field vary per thread: every (base register, displacement
/// encoding) pair is a different x86 instruction encoding under the JIT. The loop counter lives in
/// a callee-saved register distinct from both; base and source are reloaded every iteration because
/// the observer call may clobber r1-r5.
fn worker_prog_regs(addr: u64, width: u8, addend: u64, iters: u32, observe: bool, base: u8, src: u8, off: i16, unroll: u32) -> Vec<u8> {
    let opc = if width == 4 { XADD_W } else { XADD_DW };
    let counter = (6..=9u8).find(|r| *r != base && *r != src).unwrap();
    let b = addr.wrapping_sub(off as i64 as u64);
    let mut v = vec![Insn::new(MOV64_IMM, counter, 0, 0, iters as i32)];
    let top = v.len();
    v.push(Insn::new(LDDW, base, 0, 0, b as u32 as i32));
    v.push(Insn::new(0, 0, 0, 0, (b >> 32) as u32 as i32));
    v.push(Insn::new(LDDW, src, 0, 0, addend as u32 as i32));
    v.push(Insn::new(0, 0, 0, 0, (addend >> 32) as u32 as i32));
    for _ in 0..unroll.max(1) {
        v.push(Insn::new(opc, base, src, off, 0));
    }
    if observe {
        v.push(Insn::new(LDDW, 1, 0, 0, addr as u32 as i32));
        v.push(Insn::new(0, 0, 0, 0, (addr >> 32) as u32 as i32));
        v.push(Insn::new(CALL, 0, 0, 0, 1));
    }
    v.push(Insn::new(ADD64_IMM, counter, 0, 0, -1));
    let o = top as i64 - (v.len() as i64 + 1);
    v.push(Insn::new(JNE_IMM, counter, 0, o as i16, 0));
    v.push(Insn::new(MOV64_IMM, 0, 0, 0, 0));
    v.push(Insn::new(EXIT, 0, 0, 0, 0));
    encode_prog(&v)
}

#[derive(Clone, Debug)]
struct RunSpec {
    width: u8,
    nthreads: usize,
    iters: u32,
    init: u64,
    addends: Vec<u64>,
    engines: Vec<Engine>,
    monotone: bool,
    /// per thread: (base register, source register, offset field)
    regs: Vec<(u8, u8, i16)>,
    /// per thread: how the engine reaches the word: 0 = registered allowed memory (no-data VM),
    /// 1 = the packet slice covers the buffer (raw VM), 2 = the metadata buffer IS the buffer
    paths: Vec<u8>,
    /// the atomic add is repeated this many times IN A ROW in every iteration (identical
    /// instructions back to back: run-length peepholes in a compiler must still add every addend)
    unroll: u32,
}

struct RunOut {
    final_word: u64,
    neighbours_ok: bool,
    /// per thread: (ok, observations)
    threads: Vec<(bool, Vec<u64>)>,
}

fn execute_run(spec: &RunSpec, buf: &GuardBuf) -> RunOut {
    let base = buf.addr();
    let word = base + 16;
    // initialise
    buf.as_mut().fill(0xEE);
    if spec.width == 4 {
        buf.as_mut()[16..20].copy_from_slice(&(spec.init as u32).to_le_bytes());
    } else {
        buf.as_mut()[16..24].copy_from_slice(&spec.init.to_le_bytes());
    }
    OBS_WIDTH.store(spec.width as u32, Ordering::Relaxed);
    let barrier = Arc::new(Barrier::new(spec.nthreads));
    let progs: Vec<Vec<u8>> = (0..spec.nthreads).map(|t| worker_prog_regs(word, spec.width, spec.addends[t], spec.iters, true, spec.regs[t].0, spec.regs[t].1, spec.regs[t].2, spec.unroll)).collect();
    let (buf_ptr, buf_len) = (base, buf.len());
    let mut outs: Vec<(bool, Vec<u64>)> = Vec::new();
    std::thread::scope(|s| {
        let mut hs = Vec::new();
        for t in 0..spec.nthreads {
            let barrier = barrier.clone();
            let prog = &progs[t];
            let engine = spec.engines[t];
            hs.push(s.spawn(move || {
                OBS.with(|o| o.borrow_mut().clear());
                // how this execution reaches the word (see RunSpec::paths); the JIT performs no
                // bounds checks, Cranelift needs the packet or the metadata buffer to cover it
                let path = if engine == Engine::Cranelift && spec.paths[t] == 0 { 1 } else { spec.paths[t] };
                let kind = match path {
                    0 => Kind::NoData,
                    1 => Kind::Raw,
                    _ => Kind::Mbuff,
                };
                let mut vm = Vm::new(kind, Some(prog), (0, 8)).expect("vm");
                vm.register_helper(1, observer).unwrap();
                let mut ok = true;
                match engine {
                    Engine::Interp => {
                        if path == 0 {
                            vm.register_allowed(word..word + spec.width as u64)
                        }
                    }
                    Engine::Jit => ok &= vm.jit_compile().is_ok(),
                    #[cfg(feature = "std")]
                    Engine::Cranelift => ok &= vm.cl_compile().is_ok(),
                    #[cfg(not(feature = "std"))]
                    Engine::Cranelift => ok = false,
                }
                barrier.wait();
                let shared = (buf_ptr as *mut u8, buf_len);
                let none = (std::ptr::null_mut(), 0usize);
                let (mem, mb) = match path {
                    0 => (none, none),
                    1 => (shared, none),
                    _ => (none, shared),
                };
                let r = unsafe {
                    match engine {
                        Engine::Interp => vm.exec(mem, mb),
                        Engine::Jit => vm.exec_jit(mem, mb),
                        #[cfg(feature = "std")]
                        Engine::Cranelift => vm.exec_cl(mem, mb),
                        #[cfg(not(feature = "std"))]
                        Engine::Cranelift => Err("n/a".into()),
                    }
                };
                ok &= matches!(r, Ok(0));
                (ok, OBS.with(|o| std::mem::take(&mut *o.borrow_mut())))
            }));
        }
        for h in hs {
            outs.push(h.join().unwrap_or((false, Vec::new())));
        }
    });
    let b = buf.as_slice();
    let final_word = if spec.width == 4 { u32::from_le_bytes(b[16..20].try_into().unwrap()) as u64 } else { u64::from_le_bytes(b[16..24].try_into().unwrap()) };
    let neighbours_ok = b[..16].iter().all(|x| *x == 0xEE) && b[16 + spec.width as usize..].iter().all(|x| *x == 0xEE) && buf.canary_ok();
    RunOut { final_word, neighbours_ok, threads: outs }
}

struct Verdict {
    bad: Option<(String, String)>,
    interleaved: u64,
    observations: u64,
    distinct_values: u64,
}

fn judge(spec: &RunSpec, out: &RunOut) -> Verdict {
    let mask = if spec.width == 4 { 0xffff_ffffu64 } else { u64::MAX };
    let sum: u64 = spec.addends.iter().fold(0u64, |a, x| a.wrapping_add(x.wrapping_mul(spec.iters as u64).wrapping_mul(spec.unroll as u64)));
    let want = spec.init.wrapping_add(sum) & mask;
    let mut v = Verdict { bad: None, interleaved: 0, observations: 0, distinct_values: 0 };
    let mix = {
        let mut e: Vec<&str> = spec.engines.iter().map(|e| e.name()).collect();
        e.sort();
        e.dedup();
        e.join("+")
    };
    for (t, (ok, _)) in out.threads.iter().enumerate() {
        if !ok {
            v.bad = Some((format!("thread-failed:{}", spec.engines[t].name()), format!("thread {t} ({}) did not complete its {} atomic adds successfully", spec.engines[t].name(), spec.iters)));
            return v;
        }
    }
    if out.final_word != want {
        let lost = want.wrapping_sub(out.final_word) & mask;
        v.bad = Some((format!("lost-update:w{}:{mix}", spec.width * 8), format!("final value {:#x}, expected initial {:#x} + sum of addends = {:#x} (difference {:#x})", out.final_word, spec.init, want, lost)));
        return v;
    }
    if !out.neighbours_ok {
        v.bad = Some((format!("neighbour-bytes:w{}:{mix}", spec.width * 8), "bytes next to the word (or canaries) changed".into()));
        return v;
    }
    let mut all: std::collections::HashSet<u64> = std::collections::HashSet::new();
    for (t, (_, obs)) in out.threads.iter().enumerate() {
        v.observations += obs.len() as u64;
        if obs.len() != spec.iters as usize {
            v.bad = Some((format!("observer-count:{}", spec.engines[t].name()), format!("thread {t}: {} observations for {} adds (helper not called exactly once per iteration)", obs.len(), spec.iters)));
            return v;
        }
        if spec.monotone {
            let mut prev = spec.init;
            for (i, o) in obs.iter().enumerate() {
                let own = spec.init + spec.addends[t] * spec.unroll as u64 * (i as u64 + 1);
                if *o < prev {
                    v.bad = Some((format!("non-monotonic:w{}:{mix}", spec.width * 8), format!("thread {t}: observation #{i} = {o:#x} is smaller than an earlier one {prev:#x} although all addends are positive")));
                    return v;
                }
                if *o < own {
                    v.bad = Some((format!("own-add-not-visible:w{}:{mix}", spec.width * 8), format!("thread {t}: observation #{i} = {o:#x} is below the thread's own contribution so far {own:#x}")));
                    return v;
                }
                if *o > want {
                    v.bad = Some((format!("above-final:w{}:{mix}", spec.width * 8), format!("thread {t}: observation {o:#x} exceeds the final total {want:#x}")));
                    return v;
                }
                if i > 0 && o - prev > spec.addends[t] * spec.unroll as u64 {
                    v.interleaved += 1;
                }
                prev = *o;
                if all.len() < 100_000 {
                    all.insert(*o);
                }
            }
        }
    }
    v.distinct_values = all.len() as u64;
    v
}

fn gen_spec(rng: &mut Rng, q: bool, engines_avail: &[Engine], small: bool) -> RunSpec {
    let width = *rng.pick(&[4u8, 8]);
    let nthreads = if small { *rng.pick(&[2usize, 3]) } else { *rng.pick(&[2usize, 4, 8, 16, 32]) };
    let iters = if small { 3 } else if q { *rng.pick(&[1_000u32, 10_000, 50_000]) } else { *rng.pick(&[1_000u32, 10_000, 100_000, 400_000]) };
    let monotone = rng.chance(2, 3);
    let addends: Vec<u64> = (0..nthreads)
        .map(|_| {
            if monotone {
                // small positive: total stays far below 2^31
                1 + rng.below(7)
            } else {
                match rng.below(4) {
                    0 => u64::MAX,               // -1
                    1 => 0xffff_ffff_0000_0001,   // upper bits must be ignored by the 32-bit add
                    2 => rng.next(),
                    _ => rng.interesting_u64().0,
                }
            }
        })
        .collect();
    let init = if monotone { rng.below(1000) } else { rng.next() };
    let style = rng.below(4);
    let engines: Vec<Engine> = (0..nthreads)
        .map(|t| match style {
            0 => engines_avail[0],
            1 => engines_avail[engines_avail.len() - 1],
            _ => engines_avail[(t + rng.below(2) as usize) % engines_avail.len()],
        })
        .collect();
    // one (base, src, offset) combination per run for all threads, or a different one per thread
    let pick = |rng: &mut Rng| -> (u8, u8, i16) {
        let base = *rng.pick(&[1u8, 2, 3, 4, 5, 6, 7, 8, 9]);
        let mut src = *rng.pick(&[1u8, 2, 3, 4, 5, 6, 7, 8, 9, 0]);
        if src == base {
            src = if base == 9 { 8 } else { base + 1 };
        }
        (base, src, *rng.pick(&[0i16, 0, 8, -8, 127, -128, 128, 1000, -1000, i16::MAX, i16::MIN]))
    };
    let same = rng.chance(1, 2);
    let first = pick(rng);
    let regs: Vec<(u8, u8, i16)> = (0..nthreads).map(|_| if same { first } else { pick(rng) }).collect();
    {
        let pstyle = rng.below(4);
        let paths: Vec<u8> = (0..nthreads).map(|_| if pstyle < 3 { pstyle as u8 } else { rng.below(3) as u8 }).collect();
        let unroll: u32 = if !small && rng.chance(1, 4) { *rng.pick(&[2u32, 3, 64, 127, 128, 129, 200, 255, 256, 257, 300]) } else { 1 };
        let iters = (iters / unroll).max(3);
        RunSpec { width, nthreads, iters, init: if width == 4 { init & 0xffff_ffff } else { init }, addends, engines, monotone, regs, paths, unroll }
    }
}

pub fn run(a: &Args, rep: &mut Report) {
    let mut rng = Rng::derive(a.seed, a.shard, 18);
    let q = a.tier == "quick";
    let nofork = a.rest.iter().any(|x| x == "--nofork");
    let engines_avail: Vec<Engine> = if nofork {
        vec![Engine::Interp]
    } else if cfg!(feature = "std") {
        vec![Engine::Interp, Engine::Jit, Engine::Cranelift]
    } else {
        vec![Engine::Interp, Engine::Jit]
    };
    let nruns = (((if q { 320.0 } else { 6000.0 }) * a.scale) as u64 / a.nshards).max(1) as usize;
    let buf = GuardBuf::new_centered(64, 256, !nofork);
    let specs: Vec<RunSpec> = (0..nruns).map(|_| gen_spec(&mut rng, q, &engines_avail, nofork && a.scale < 0.01)).collect();
    // ---- misaligned atomic add: interpreter error, memory unchanged (single thread) ----
    for width in [4u8, 8] {
        for mis in 1..width as u64 {
            let word = buf.addr() + 16 + mis;
            buf.as_mut().fill(0x5C);
            let prog = worker_prog(word, width, 3, 1, false);
            let r = sys::catch(|| {
                let mut vm = Vm::new(Kind::NoData, Some(&prog), (0, 8)).unwrap();
                vm.register_allowed(buf.addr()..buf.addr() + 64);
                vm.exec((std::ptr::null_mut(), 0), (std::ptr::null_mut(), 0))
            });
            rep.case(Some(crate::util::fnv(&prog)));
            rep.count("misaligned_cases");
            let unchanged = buf.as_slice().iter().all(|x| *x == 0x5C);
            match r {
                Ok(Err(_)) if unchanged => {}
                Ok(Err(_)) => rep.violation(&format!("C18:misaligned-wrote:w{}", width * 8), "misaligned atomic add returned Err but changed memory".into(), json!({"kind": "xadd-misaligned", "width": width, "misalignment": mis})),
                Ok(Ok(v)) => rep.violation(&format!("C18:misaligned-performed:w{}", width * 8), format!("misaligned atomic add (address % {width} = {mis}) returned Ok({v})"), json!({"kind": "xadd-misaligned", "width": width, "misalignment": mis})),
                Err(p) => rep.violation(&format!("C18:misaligned-panic:w{}", width * 8), p, json!({"kind": "xadd-misaligned", "width": width, "misalignment": mis})),
            }
        }
    }
    // ---- concurrent runs ----
    let encode = |out: &RunOut, o: &mut Vec<u8>| {
        o.extend_from_slice(&out.final_word.to_le_bytes());
        o.push(out.neighbours_ok as u8);
        o.extend_from_slice(&(out.threads.len() as u32).to_le_bytes());
        for (ok, obs) in &out.threads {
            o.push(*ok as u8);
            o.extend_from_slice(&(obs.len() as u32).to_le_bytes());
            for x in obs {
                o.extend_from_slice(&x.to_le_bytes());
            }
        }
    };
    let decode = |b: &[u8]| -> RunOut {
        let mut p = 0;
        let final_word = u64::from_le_bytes(b[p..p + 8].try_into().unwrap());
        p += 8;
        let neighbours_ok = b[p] != 0;
        p += 1;
        let nt = u32::from_le_bytes(b[p..p + 4].try_into().unwrap()) as usize;
        p += 4;
        let mut threads = Vec::new();
        for _ in 0..nt {
            let ok = b[p] != 0;
            p += 1;
            let n = u32::from_le_bytes(b[p..p + 4].try_into().unwrap()) as usize;
            p += 4;
            let mut obs = Vec::with_capacity(n);
            for _ in 0..n {
                obs.push(u64::from_le_bytes(b[p..p + 8].try_into().unwrap()));
                p += 8;
            }
            threads.push((ok, obs));
        }
        RunOut { final_word, neighbours_ok, threads }
    };
    let outs: Vec<Result<RunOut, String>> = if nofork {
        specs.iter().map(|s| Ok(execute_run(s, &buf))).collect()
    } else {
        // one run per child (each record can be tens of MB: the batch helper restarts as needed)
        specs
            .iter()
            .map(|s| {
                let mut limited = s.clone();
                // keep records below the shared-area size
                while limited.nthreads as u64 * limited.iters as u64 * 8 > 12 << 20 {
                    limited.iters /= 2;
                }
                let ends = sys::run_batch(1, 600, 600, |_, o| {
                    let out = execute_run(&limited, &buf);
                    encode(&out, o);
                });
                match &ends[0] {
                    CaseEnd::Done(b) => Ok(decode(b)),
                    CaseEnd::Died(sig, _) => Err(format!("signal-{}", sys::signame(*sig))),
                    CaseEnd::CpuTimeout => Err("cpu-timeout".into()),
                    CaseEnd::Inconclusive(s) => Err(format!("inconclusive: {s}")),
                }
            })
            .collect()
    };
    for (s, o) in specs.iter().zip(outs.iter()) {
        let mut s = s.clone();
        while !nofork && s.nthreads as u64 * s.iters as u64 * 8 > 12 << 20 {
            s.iters /= 2;
        }
        rep.case(Some(crate::util::fnv(format!("{s:?}").as_bytes())));
        let w = json!({"kind": "xadd-run", "width": s.width, "threads": s.nthreads, "iters": s.iters, "unroll": s.unroll, "init": format!("{:#x}", s.init), "addends": s.addends.iter().map(|a| format!("{a:#x}")).collect::<Vec<_>>(), "engines": s.engines.iter().map(|e| e.name()).collect::<Vec<_>>(), "paths": s.paths, "base_src_off": s.regs.iter().map(|r| format!("{:?}", r)).collect::<Vec<_>>(), "prog": hex(&worker_prog(buf.addr() + 16, s.width, s.addends[0], s.iters, true))});
        let mixname = {
            let mut e: Vec<&str> = s.engines.iter().map(|e| e.name()).collect();
            e.sort();
            e.dedup();
            e.join("+")
        };
        rep.set("engine_mixes", mixname.clone());
        rep.set("thread_counts", format!("{}", s.nthreads));
        for p in &s.paths {
            rep.set("access_paths", ["allowed-memory", "packet", "metadata-buffer"][*p as usize]);
        }
        for r in &s.regs {
            rep.set("base_registers", format!("r{}", r.0));
            rep.set("offset_fields", format!("{}", r.2));
        }
        rep.add("atomic_adds", s.nthreads as u64 * s.iters as u64 * s.unroll as u64);
        rep.set("xadds_in_a_row", format!("{}", s.unroll));
        match o {
            Err(e) if e.starts_with("inconclusive") => rep.inconclusive(e.clone()),
            Err(e) => rep.violation(&format!("C18:{e}:{mixname}"), format!("concurrent run ended with {e}"), w),
            Ok(out) => {
                let v = judge(&s, out);
                rep.add("observations", v.observations);
                rep.add("observations_showing_other_threads_progress", v.interleaved);
                rep.max("max_distinct_observed_values_in_a_run", v.distinct_values);
                if let Some((k, d)) = v.bad {
                    rep.violation(&format!("C18:{k}"), d, w);
                } else if rep.want_sample() {
                    rep.sample(json!({"run": w, "final": format!("{:#x}", out.final_word), "interleaved_observations": v.interleaved}));
                }
            }
        }
    }
}
