//! Running one `Case` on the real engines and on the reference machine; shared by the execution
//! monitors (C01, C03, C04, C05, C07, C08, C12).

use crate::engines::{Engine, Kind, Vm, hooks};
use crate::genp::{CalcSpec, Case};
use crate::hlp;
use crate::refvm::{Outcome, RefVm, Region, Setup};
use crate::sys::{self, CaseEnd, GuardBuf};
use std::any::Any;

pub struct Bufs {
    pub pkt: Option<GuardBuf>,
    pub mbuff: Option<GuardBuf>,
    /// adjacent placement: both buffers are windows into this one mapping
    parent: Option<GuardBuf>,
}

impl Bufs {
    pub fn new(c: &Case) -> Bufs {
        // adjacent placement (what `split_at_mut` on one buffer gives a caller): the metadata buffer
        // directly below (1) or directly above (2) the packet, nothing in between
        if c.adjacent != 0 && c.kind == Kind::Mbuff && !c.mbuff.is_empty() && !c.pkt.is_empty() {
            let parent = GuardBuf::new(c.pkt.len() + c.mbuff.len(), c.end_aligned, false);
            let (po, mo) = if c.adjacent == 1 { (c.mbuff.len(), 0) } else { (0, c.pkt.len()) };
            let pkt = Some(GuardBuf::view(&parent, po, c.pkt.len()));
            let mbuff = Some(GuardBuf::view(&parent, mo, c.mbuff.len()));
            let b = Bufs { pkt, mbuff, parent: Some(parent) };
            b.reset(c);
            return b;
        }
        let mk_mbuff = || if c.kind == Kind::Mbuff && !c.mbuff.is_empty() { Some(GuardBuf::new(c.mbuff.len(), !c.end_aligned, false)) } else { None };
        let early = if c.mbuff_first { mk_mbuff() } else { None };
        let pkt = if c.pkt.is_empty() { None } else { Some(GuardBuf::new(c.pkt.len(), c.end_aligned, false)) };
        let mbuff = if c.mbuff_first { early } else { mk_mbuff() };
        let b = Bufs { pkt, mbuff, parent: None };
        b.reset(c);
        b
    }
    pub fn reset(&self, c: &Case) {
        if let Some(p) = &self.pkt {
            p.fill(&c.pkt);
        }
        if let Some(m) = &self.mbuff {
            m.fill(&c.mbuff);
            if c.mbuff_ptrs && c.mbuff.len() >= 16 {
                let (a, l) = self.pkt_raw();
                let a = if l == 0 { 0 } else { a as u64 };
                m.as_mut()[0..8].copy_from_slice(&a.to_le_bytes());
                m.as_mut()[8..16].copy_from_slice(&(a + l as u64).to_le_bytes());
            }
        }
    }
    pub fn pkt_raw(&self) -> (*mut u8, usize) {
        match &self.pkt {
            Some(p) => (p.addr() as *mut u8, p.len()),
            None => (std::ptr::null_mut(), 0),
        }
    }
    pub fn mbuff_raw(&self) -> (*mut u8, usize) {
        match &self.mbuff {
            Some(p) => (p.addr() as *mut u8, p.len()),
            None => (std::ptr::null_mut(), 0),
        }
    }
    pub fn pkt_bytes(&self) -> Vec<u8> {
        self.pkt.as_ref().map(|p| p.as_slice().to_vec()).unwrap_or_default()
    }
    pub fn mbuff_bytes(&self) -> Vec<u8> {
        self.mbuff.as_ref().map(|p| p.as_slice().to_vec()).unwrap_or_default()
    }
    pub fn canaries_ok(&self) -> bool {
        self.parent.as_ref().map(|p| p.canary_ok()).unwrap_or(true) && self.pkt.as_ref().map(|p| p.canary_ok()).unwrap_or(true) && self.mbuff.as_ref().map(|p| p.canary_ok()).unwrap_or(true)
    }
}

// ---- stack usage calculators (plain fns; the data box carries the spec) ----

/// helper family used by `run_interp` (0 plain, 1 hostile, 2 gentle)
pub static INTERP_FAMILY: std::sync::atomic::AtomicU8 = std::sync::atomic::AtomicU8::new(0);

pub static CALC_LOG: std::sync::Mutex<Vec<usize>> = std::sync::Mutex::new(Vec::new());

thread_local! {
    /// while set, the stack-usage calculator panics (a user callback failing in the middle of a load)
    pub static CALC_PANICS: std::cell::Cell<bool> = const { std::cell::Cell::new(false) };
}

fn calc_fn(prog: &[u8], pc: usize, data: &mut dyn Any) -> u16 {
    if CALC_PANICS.with(|c| c.get()) {
        panic!("harness: the stack usage calculator panics on purpose");
    }
    // asked about the placeholder program a VM may hold before the case's program is loaded: a
    // decoy value, so that an answer remembered across set_program() is recognisably wrong later
    if prog.len() == DUMMY_PROG.len() && prog == &DUMMY_PROG[..] {
        return 56;
    }
    if prog.len() == REFUSED_PROG.len() && prog == &REFUSED_PROG[..] {
        return 24;
    }
    if let Ok(mut l) = CALC_LOG.lock() {
        if l.len() < 4096 {
            l.push(pc);
        }
    }
    // rbpf hands the calculator `&mut Box<dyn Any>` coerced to `&mut dyn Any`, i.e. the dynamic
    // type is the Box, not its content: look through it.
    if let Some(s) = data.downcast_ref::<CalcSpec>() {
        return s.frame(pc) as u16;
    }
    match data.downcast_ref::<Box<dyn Any>>().and_then(|b| b.downcast_ref::<CalcSpec>()) {
        Some(s) => s.frame(pc) as u16,
        None => panic!("harness: calculator data has an unexpected type"),
    }
}

/// a helper that always panics (the caller catches the unwind)
pub fn panicking_helper(_a: u64, _b: u64, _c: u64, _d: u64, _e: u64) -> u64 {
    panic!("harness: helper panics on purpose")
}

pub fn helper_for(j: usize, family: Family) -> crate::engines::Helper {
    match family {
        Family::Plain => hlp::PLAIN[j % hlp::NH],
        Family::Hostile => hlp::hostile(j),
        Family::Gentle => hlp::gentle(j),
    }
}

#[derive(Clone, Copy, PartialEq, Eq, Debug)]
pub enum Family {
    Plain,
    Hostile,
    Gentle,
}

/// a trivial valid program used when the case is loaded through set_program on a VM that already
/// holds another program
pub static DUMMY_PROG: [u8; 16] = [0xb7, 0, 0, 0, 0x2a, 0, 0, 0, 0x95, 0, 0, 0, 0, 0, 0, 0];

/// Build a VM for the case: load program, register helpers and calculator. Three load paths are
/// used (chosen by the program's length, i.e. deterministically per case): `new(prog)` then
/// configuration; `new(None)`, configuration, `set_program(prog)`; `new(other program)`,
/// configuration, `set_program(prog)`.
pub fn build_vm<'a>(c: &'a Case, family: Family) -> Result<Vm<'a>, String> {
    let path = (c.prog.len() / 8) % 5;
    let mut vm = match path {
        1 => Vm::new(c.kind, None, c.offs)?,
        2 => Vm::new(c.kind, Some(&DUMMY_PROG), (c.offs.1, c.offs.0))?,
        _ => Vm::new(c.kind, Some(c.prog_slice()), c.offs)?,
    };
    for (id, j) in &c.helpers {
        vm.register_helper(*id, helper_for(*j, family))?;
    }
    if c.calc != CalcSpec::None {
        vm.set_calc(calc_fn, Box::new(c.calc.clone()))?;
    }
    if path == 1 || path == 2 {
        vm.set_program(c.prog_slice(), c.offs)?;
    }
    if path >= 3 {
        // "after something went wrong": a load the verifier refuses (a program with function
        // entries of its own, for the fixed VM with smaller offsets) must leave the VM as it was -
        // program, frame sizes, offsets and buffer
        if vm.set_program(&REFUSED_PROG, if path == 3 { c.offs } else { (0, 8) }).is_ok() {
            return Err("the refused placeholder program was accepted".into());
        }
    }
    Ok(vm)
}

/// `call +1; exit; mov r0, 0; ja +5` - two function entries (0 and 2) and a jump out of the
/// program: refused by the verifier.
pub static REFUSED_PROG: [u8; 32] = [0x85, 0x10, 0, 0, 1, 0, 0, 0, 0x95, 0, 0, 0, 0, 0, 0, 0, 0xb7, 0, 0, 0, 0, 0, 0, 0, 0x05, 0, 5, 0, 0, 0, 0, 0];

pub enum Ran {
    Ok(u64),
    Err(String),
    Panic(String),
    /// the VM refused the program (verifier) - message
    Rejected(String),
}

impl Ran {
    pub fn short(&self) -> String {
        match self {
            Ran::Ok(v) => format!("Ok({v:#x})"),
            Ran::Err(e) => format!("Err({})", e.chars().take(100).collect::<String>()),
            Ran::Panic(p) => format!("PANIC({p})"),
            Ran::Rejected(e) => format!("REJECTED({e})"),
        }
    }
}

pub struct InterpRun {
    pub ran: Ran,
    pub steps: u64,
    pub pc_hash: u64,
    pub max_pc: u64,
    pub stack_addr: u64,
    pub mbuff_addr: u64,
    pub mbuff_len: u64,
    pub pkt_after: Vec<u8>,
    pub mbuff_after: Vec<u8>,
    pub trace: Vec<u32>,
    pub helper_log: Vec<hlp::LogEntry>,
    pub budget_hit: bool,
    /// the same VM object was executed a second time on the restored buffers and behaved differently
    pub repeat_mismatch: Option<String>,
}

/// accumulation workloads: how many cases were soaked and how many extra executions that made
pub static SOAKS: std::sync::atomic::AtomicU64 = std::sync::atomic::AtomicU64::new(0);
pub static SOAK_EXECS: std::sync::atomic::AtomicU64 = std::sync::atomic::AtomicU64::new(0);
pub static SOAK_RECOMPILES: std::sync::atomic::AtomicU64 = std::sync::atomic::AtomicU64::new(0);
static SOAK_TICK: std::sync::atomic::AtomicU64 = std::sync::atomic::AtomicU64::new(0);
/// one case in `SOAK_EVERY` (short executions only) is due for a soak
pub static SOAK_EVERY: std::sync::atomic::AtomicU64 = std::sync::atomic::AtomicU64::new(6000);
pub fn soak_n() -> u64 {
    if cfg!(miri) { 0 } else if sys::cpu_scale() > 1 { 700 } else { 66_000 }
}
/// compiled cases run in forked children (a per-process tick would restart with every child):
/// the choice depends on the case's content instead - one short case in about 4000
pub fn soak_due_compiled(c: &Case) -> bool {
    if cfg!(miri) {
        return false;
    }
    let every = SOAK_EVERY.load(std::sync::atomic::Ordering::Relaxed) * 2 / 3;
    every != 0 && c.hash() % every == 7
}
pub fn soak_due(steps: u64) -> bool {
    if cfg!(miri) || steps > 400 {
        return false;
    }
    let every = SOAK_EVERY.load(std::sync::atomic::Ordering::Relaxed);
    every != 0 && SOAK_TICK.fetch_add(1, std::sync::atomic::Ordering::Relaxed) % every == every / 2
}

pub const BUDGET_MSG: &str = "verif-hooks instruction budget exhausted";

/// Run the case on the real interpreter (in-process, panics caught).
pub fn run_interp(c: &Case, bufs: &Bufs, budget: u64, trace_cap: usize) -> InterpRun {
    bufs.reset(c);
    hlp::log_reset();
    let mut trace = vec![0u32; trace_cap];
    let mut repeat: Option<String> = None;
    let r = sys::catch(|| {
        let fam = match INTERP_FAMILY.load(std::sync::atomic::Ordering::Relaxed) {
            1 => Family::Hostile,
            2 => Family::Gentle,
            _ => Family::Plain,
        };
        let mut vm = match build_vm(c, fam) {
            Ok(v) => v,
            Err(e) => return Ran::Rejected(e),
        };
        // placement variants also register allowed ranges that lie INSIDE the packet or the metadata
        // buffer (nested, and an empty one): the union of accessible memory is unchanged, so nothing
        // about the run may change - a region that overlaps another must not hide it
        if c.prog_shift != 0 {
            for g in [&bufs.pkt, &bufs.mbuff].into_iter().flatten() {
                if g.len() >= 24 {
                    vm.register_allowed(g.addr() + 8..g.addr() + 16);
                    vm.register_allowed(g.addr() + 12..g.addr() + 12);
                    vm.register_allowed(g.addr() + g.len() as u64 - 5..g.addr() + g.len() as u64);
                }
            }
        }
        // a third of the cases with helpers are first executed with DECOY helpers (the function under
        // each id shifted by one), then the right functions are registered: the execution that counts
        // must call what is registered now (fixed VM excluded: bytes a program stores in the internal
        // buffer legitimately survive an execution)
        if !c.helpers.is_empty() && (c.prog.len() / 8) % 3 == 2 && c.kind != crate::engines::Kind::Fixed {
            let ok = (|| -> Result<(), String> {
                for (id, j) in &c.helpers {
                    vm.register_helper(*id, helper_for((*j + 1) % hlp::NH, fam))?;
                }
                hooks::reset(budget, false);
                let _ = vm.exec(bufs.pkt_raw(), bufs.mbuff_raw());
                for (id, j) in &c.helpers {
                    vm.register_helper(*id, helper_for(*j, fam))?;
                }
                Ok(())
            })();
            if let Err(e) = ok {
                return Ran::Rejected(format!("re-registering helpers failed: {e}"));
            }
            bufs.reset(c);
            hlp::log_reset();
        }
        // a load during which the installed calculator panics (caught, as a caller may do) did not
        // load anything: the case's program is still the one that runs
        if c.calc != CalcSpec::None && (c.prog.len() / 8) % 4 == 1 {
            CALC_PANICS.with(|f| f.set(true));
            let r = std::panic::catch_unwind(std::panic::AssertUnwindSafe(|| vm.set_program(&DUMMY_PROG, c.offs)));
            CALC_PANICS.with(|f| f.set(false));
            if matches!(r, Ok(Ok(()))) {
                // the calculator was not consulted and the placeholder is loaded: load the case's program again
                if let Err(e) = vm.set_program(&c.prog, c.offs) {
                    return Ran::Rejected(e);
                }
            }
        }
        // a compilation attempted (and, for programs with local calls, refused) on this VM before it
        // is interpreted must not take anything away from it
        #[cfg(feature = "std")]
        if (c.prog.len() / 8) % 7 == 2 {
            let _ = vm.cl_compile();
        }
        // "after something went wrong": a fifth of the cases are preceded, on the same VM, by an
        // execution that fails - with no packet at all (out-of-bounds error for programs that read it)
        // and, when the program calls helpers, with helpers that PANIC (the panic unwinds through the
        // interpreter and is caught here, as a caller may do); then everything is put right again
        if (c.prog.len() / 8) % 5 == 3 && c.kind != crate::engines::Kind::Fixed {
            hooks::reset(budget, false);
            let _ = vm.exec((std::ptr::null_mut(), 0), (std::ptr::null_mut(), 0));
            if !c.helpers.is_empty() {
                for (id, _) in &c.helpers {
                    let _ = vm.register_helper(*id, panicking_helper);
                }
                hooks::reset(budget, false);
                let caught = std::panic::catch_unwind(std::panic::AssertUnwindSafe(|| {
                    let _ = vm.exec(bufs.pkt_raw(), bufs.mbuff_raw());
                }));
                let _ = caught;
                for (id, j) in &c.helpers {
                    if let Err(e) = vm.register_helper(*id, helper_for(*j, fam)) {
                        return Ran::Rejected(format!("re-registering helpers failed: {e}"));
                    }
                }
            }
            bufs.reset(c);
            hlp::log_reset();
        }
        hooks::reset(budget, true);
        if trace_cap > 0 {
            hooks::set_trace_buffer(&mut trace);
        }
        let r = vm.exec(bufs.pkt_raw(), bufs.mbuff_raw());
        // history independence: a quarter of the cases are executed a second time on the same VM
        if c.prog.len() % 32 == 8 || c.prog.len() % 56 == 16 {
            let (steps1, hash1) = (hooks::count(), hooks::pc_hash());
            let pkt1 = bufs.pkt_bytes();
            let nlog1 = hlp::log_total();
            // an execution on DIFFERENT packet bytes in between must not influence the next one
            if let Some(p) = &bufs.pkt {
                for x in p.as_mut().iter_mut() {
                    *x = !*x;
                }
                hooks::reset(budget, false);
                hooks::clear_trace_buffer();
                let _ = vm.exec(bufs.pkt_raw(), bufs.mbuff_raw());
            }
            bufs.reset(c);
            hlp::log_reset();
            hooks::reset(budget, true);
            hooks::clear_trace_buffer();
            let r2 = vm.exec(bufs.pkt_raw(), bufs.mbuff_raw());
            let same = match (&r, &r2) {
                (Ok(a), Ok(b)) => a == b,
                (Err(_), Err(_)) => true,
                _ => false,
            } && steps1 == hooks::count()
                && hash1 == hooks::pc_hash()
                && pkt1 == bufs.pkt_bytes()
                && nlog1 == hlp::log_total();
            if !same {
                repeat = Some(format!("first execution {:?} ({steps1} steps), second execution on the same VM {:?} ({} steps)", r.as_ref().map_err(|e| e.chars().take(60).collect::<String>()), r2.as_ref().map_err(|e| e.chars().take(60).collect::<String>()), hooks::count()));
            }
        }
        // accumulation: one case in SOAK_EVERY is executed SOAK_N more times on the same VM object
        // (more than 2^16: counters, generations and caches kept in narrow types or with a fixed
        // capacity wrap or fill up only then); value, step count, pc fold, packet bytes and the
        // number of helper calls of EVERY execution must equal the first one's
        if repeat.is_none() && soak_due(hooks::count()) {
            let (steps1, hash1) = (hooks::count(), hooks::pc_hash());
            let pkt1 = bufs.pkt_bytes();
            let mb1 = bufs.mbuff_bytes();
            let nlog1 = hlp::log_total();
            let n = soak_n();
            SOAKS.fetch_add(1, std::sync::atomic::Ordering::Relaxed);
            hooks::clear_trace_buffer();
            for k in 0..n {
                bufs.reset(c);
                hlp::log_reset();
                hooks::reset(budget, true);
                let rk = vm.exec(bufs.pkt_raw(), bufs.mbuff_raw());
                let mut same = match (&r, &rk) {
                    (Ok(a), Ok(b)) => a == b,
                    (Err(_), Err(_)) => true,
                    _ => false,
                } && steps1 == hooks::count()
                    && hash1 == hooks::pc_hash()
                    && nlog1 == hlp::log_total();
                if same && (k % 64 == 63 || k + 1 == n || k < 4) {
                    same = pkt1 == bufs.pkt_bytes() && (c.kind != crate::engines::Kind::Mbuff || mb1 == bufs.mbuff_bytes());
                }
                SOAK_EXECS.fetch_add(1, std::sync::atomic::Ordering::Relaxed);
                if !same {
                    repeat = Some(format!("first execution {:?} ({steps1} steps); execution #{} on the same VM {:?} ({} steps, {} helper calls vs {nlog1})", r.as_ref().map_err(|e| e.chars().take(60).collect::<String>()), k + 3, rk.as_ref().map_err(|e| e.chars().take(60).collect::<String>()), hooks::count(), hlp::log_total()));
                    break;
                }
            }
            // ... and a VM with that many executions behind it must still take a new program: load a
            // placeholder (runs, returns 0x2a), then the case's program again (same result as at first)
            if repeat.is_none() && n > 0 {
                let ld = vm.set_program(&DUMMY_PROG, c.offs);
                hooks::reset(budget, true);
                let rd = vm.exec(bufs.pkt_raw(), bufs.mbuff_raw());
                if ld.is_err() || !matches!(rd, Ok(0x2a)) {
                    repeat = Some(format!("after {} executions on the same VM, set_program(placeholder returning 0x2a) gave {:?} and executing gave {:?}", n + 2, ld, rd.as_ref().map_err(|e| e.chars().take(60).collect::<String>())));
                } else {
                    let ld2 = vm.set_program(&c.prog, c.offs);
                    bufs.reset(c);
                    hlp::log_reset();
                    hooks::reset(budget, true);
                    let r3 = vm.exec(bufs.pkt_raw(), bufs.mbuff_raw());
                    let same = ld2.is_ok() && match (&r, &r3) {
                        (Ok(a), Ok(b)) => a == b,
                        (Err(_), Err(_)) => true,
                        _ => false,
                    } && steps1 == hooks::count() && hash1 == hooks::pc_hash();
                    if !same {
                        repeat = Some(format!("after {} executions and a reload of the same program on the same VM: load {:?}, execution {:?} ({} steps), first execution {:?} ({steps1} steps)", n + 3, ld2, r3.as_ref().map_err(|e| e.chars().take(60).collect::<String>()), hooks::count(), r.as_ref().map_err(|e| e.chars().take(60).collect::<String>())));
                    }
                }
            }
            // ... and hundreds of registrations later the function registered LAST under each id is
            // the one that is called
            if repeat.is_none() && n > 0 && !c.helpers.is_empty() {
                for _ in 0..300 {
                    for (id, j) in &c.helpers {
                        let _ = vm.register_helper(*id, helper_for((*j + 1) % hlp::NH, fam));
                        let _ = vm.register_helper(*id, helper_for(*j, fam));
                    }
                }
                bufs.reset(c);
                hlp::log_reset();
                hooks::reset(budget, true);
                let r4 = vm.exec(bufs.pkt_raw(), bufs.mbuff_raw());
                let same = match (&r, &r4) {
                    (Ok(a), Ok(b)) => a == b,
                    (Err(_), Err(_)) => true,
                    _ => false,
                } && steps1 == hooks::count() && hash1 == hooks::pc_hash() && nlog1 == hlp::log_total();
                if !same {
                    repeat = Some(format!("after 600 more register_helper calls per id (the last one registering the same function as at first): execution {:?}, first execution {:?}", r4.as_ref().map_err(|e| e.chars().take(60).collect::<String>()), r.as_ref().map_err(|e| e.chars().take(60).collect::<String>())));
                }
            }
            // leave the hooks / buffers / log as the first execution left them
            bufs.reset(c);
            hlp::log_reset();
            hooks::reset(budget, true);
            if trace_cap > 0 {
                hooks::set_trace_buffer(&mut trace);
            }
            let _ = vm.exec(bufs.pkt_raw(), bufs.mbuff_raw());
        }
        match r {
            Ok(v) => Ran::Ok(v),
            Err(e) => Ran::Err(e),
        }
    });
    hooks::clear_trace_buffer();
    let ran = match r {
        Ok(x) => x,
        Err(p) => Ran::Panic(p),
    };
    let steps = hooks::count();
    trace.truncate((steps as usize).min(trace_cap));
    let (mbuff_addr, mbuff_len) = hooks::mbuff();
    let budget_hit = matches!(&ran, Ran::Err(e) if e.contains(BUDGET_MSG));
    let out = InterpRun {
        ran,
        steps,
        pc_hash: hooks::pc_hash(),
        max_pc: hooks::max_pc(),
        stack_addr: hooks::stack_addr(),
        mbuff_addr,
        mbuff_len,
        pkt_after: bufs.pkt_bytes(),
        mbuff_after: bufs.mbuff_bytes(),
        trace,
        helper_log: hlp::log_take(),
        budget_hit,
        repeat_mismatch: repeat,
    };
    hooks::unlimited();
    out
}

/// compare only the bytes whose value is within the claim
pub fn masked_eq(want: &[u8], mask: &[bool], got: &[u8]) -> bool {
    want.len() == got.len() && want.iter().zip(got.iter()).zip(mask.iter()).all(|((w, g), m)| !*m || w == g)
}

pub struct RefRun {
    pub outcome: Outcome,
    pub steps: u64,
    pub pc_hash: u64,
    pub max_pc: usize,
    pub max_jump: i64,
    pub max_depth: usize,
    pub trace: Vec<u32>,
    pub pkt_after: Vec<u8>,
    pub pkt_clean: bool,
    /// per byte: true if the byte's value is within the claim (not undefined / address dependent)
    pub pkt_mask: Vec<bool>,
    pub mbuff_after: Vec<u8>,
    pub mbuff_clean: bool,
    pub mbuff_mask: Vec<bool>,
    pub helper_log: Vec<crate::refvm::HelperCall>,
    pub executed: [u32; 256],
    pub br_taken: [u32; 256],
    pub br_not: [u32; 256],
    pub neg_ldabs: bool,
    pub xadd_done: u32,
    pub alt_diverged: Vec<u8>,
}

/// Run the reference machine on the same case, with the addresses the interpreter actually used.
/// `fixed_mbuff`: content of the fixed VM's internal buffer at entry (zeros + the two pointers).
pub fn run_ref(c: &Case, bufs: &Bufs, ir: &InterpRun, budget: u64, trace_cap: usize, extra: Vec<Region>) -> RefRun {
    run_ref_alt(c, bufs, ir, budget, trace_cap, extra, false)
}

/// `alt`: run with the alternative (known-finding) semantics, see RefVm::alt_zext_unsigned_imm.
pub fn run_ref_alt(c: &Case, bufs: &Bufs, ir: &InterpRun, budget: u64, trace_cap: usize, extra: Vec<Region>, alt: bool) -> RefRun {
    bufs.reset(c);
    let (pa, pl) = bufs.pkt_raw();
    let pkt_addr = if pl == 0 { 0u64 } else { pa as u64 };
    let mut regions: Vec<Region> = Vec::new();
    let mut pkt_idx = None;
    let mut mb_idx = None;
    if pl > 0 {
        regions.push(Region::new("pkt", pkt_addr, &bufs.pkt_bytes()));
        pkt_idx = Some(regions.len() - 1);
    }
    let mut r1 = pkt_addr;
    match c.kind {
        Kind::Mbuff => {
            let (ma, ml) = bufs.mbuff_raw();
            if ml > 0 {
                let mut r = Region::new("mbuff", ma as u64, &bufs.mbuff_bytes());
                if c.mbuff_ptrs && ml >= 16 && pl > 0 {
                    r.set_ptr_slot(0, 1);
                    r.set_ptr_slot(8, 1);
                }
                regions.push(r);
                mb_idx = Some(regions.len() - 1);
                r1 = ma as u64;
            }
        }
        Kind::Fixed => {
            // internal buffer: zero-filled, the two pointers written at the configured offsets
            let len = c.offs.0.max(c.offs.1) + 8;
            let mut b = vec![0u8; len];
            // write order of the VM: data offset first, then end offset
            b[c.offs.0..c.offs.0 + 8].copy_from_slice(&(pa as u64).to_le_bytes());
            b[c.offs.1..c.offs.1 + 8].copy_from_slice(&((pa as u64).wrapping_add(pl as u64)).to_le_bytes());
            if pl == 0 {
                // the API passes the (dangling) address of the empty slice; its value is not
                // part of any claim: treat those bytes as raw addresses
            }
            let base = ir.mbuff_addr;
            let mut r = Region::new("fixedmbuff", base, &b);
            if pl == 0 {
                for k in 0..8 {
                    r.taint[c.offs.0 + k] = 2;
                    r.taint[c.offs.1 + k] = 2;
                }
            } else {
                r.set_ptr_slot(c.offs.0, 1);
                r.set_ptr_slot(c.offs.1, 1);
            }
            regions.push(r);
            mb_idx = Some(regions.len() - 1);
            r1 = base;
        }
        _ => {}
    }
    for e in extra {
        regions.push(e);
    }
    let helpers = c.helpers.clone();
    let hf = move |id: u32, a: [u64; 5]| -> Option<u64> { helpers.iter().find(|(i, _)| *i == id).map(|(_, j)| hlp::value(*j as u64, a)) };
    let calc = c.calc.clone();
    let ff = move |pc: usize| -> u64 { calc.frame(pc) };
    let mut vm = RefVm::new(Setup {
        prog: &c.prog,
        r1,
        stack_addr: ir.stack_addr,
        regions,
        pkt_base: if pl == 0 { pa as u64 } else { pkt_addr },
        helper_fn: &hf,
        frame_size_of: &ff,
        trace_cap,
        alt_zext_unsigned_imm: alt,
    });
    let outcome = vm.run(budget);
    let (pkt_after, pkt_mask) = match pkt_idx {
        Some(i) => (vm.regions[i].data.clone(), vm.regions[i].taint.iter().map(|t| *t == 0).collect()),
        None => (Vec::new(), Vec::new()),
    };
    let (mbuff_after, mbuff_mask) = match (c.kind, mb_idx) {
        (Kind::Mbuff, Some(i)) => (vm.regions[i].data.clone(), vm.regions[i].taint.iter().map(|t| *t == 0).collect()),
        _ => (Vec::new(), Vec::new()),
    };
    let pkt_clean = true;
    let mbuff_clean = true;
    RefRun {
        outcome,
        steps: vm.steps,
        pc_hash: vm.pc_hash,
        max_pc: vm.max_pc,
        max_jump: vm.max_jump,
        max_depth: vm.max_depth,
        trace: std::mem::take(&mut vm.trace),
        pkt_after,
        pkt_clean,
        pkt_mask,
        mbuff_after,
        mbuff_clean,
        mbuff_mask,
        helper_log: std::mem::take(&mut vm.helper_log),
        executed: vm.executed,
        br_taken: vm.br_taken,
        br_not: vm.br_not,
        neg_ldabs: vm.neg_ldabs,
        xadd_done: vm.xadd_done,
        alt_diverged: vm.alt_diverged.clone(),
    }
}

// ---- compiled engines, in forked children ----

#[derive(Debug, Clone)]
pub struct ChildRec {
    /// 0 = executed, 1 = compile Err, 2 = compile panic, 3 = exec Err, 4 = exec panic, 5 = vm rejected
    pub status: u8,
    pub value: u64,
    pub msg: String,
    pub pkt: Vec<u8>,
    pub mbuff: Vec<u8>,
    pub log: Vec<hlp::LogEntry>,
    pub canary_ok: bool,
    /// extra executions / re-compilations made on the same VM by the accumulation step (0 = none)
    pub soaked: u32,
}

fn put_bytes(out: &mut Vec<u8>, b: &[u8]) {
    out.extend_from_slice(&(b.len() as u32).to_le_bytes());
    out.extend_from_slice(b);
}

impl ChildRec {
    pub fn encode(&self, out: &mut Vec<u8>) {
        out.push(self.status);
        out.push(self.canary_ok as u8);
        out.extend_from_slice(&self.value.to_le_bytes());
        put_bytes(out, self.msg.as_bytes());
        put_bytes(out, &self.pkt);
        put_bytes(out, &self.mbuff);
        out.extend_from_slice(&(self.log.len() as u32).to_le_bytes());
        for e in &self.log {
            out.extend_from_slice(&e.j.to_le_bytes());
            for a in e.args {
                out.extend_from_slice(&a.to_le_bytes());
            }
            out.extend_from_slice(&e.rsp.to_le_bytes());
        }
        out.extend_from_slice(&self.soaked.to_le_bytes());
    }
    pub fn decode(b: &[u8]) -> Option<ChildRec> {
        let mut p = 0usize;
        let status = *b.get(p)?;
        let canary_ok = *b.get(p + 1)? != 0;
        p += 2;
        let rd64 = |p: &mut usize| -> Option<u64> {
            let v = u64::from_le_bytes(b.get(*p..*p + 8)?.try_into().ok()?);
            *p += 8;
            Some(v)
        };
        let rdb = |p: &mut usize| -> Option<Vec<u8>> {
            let l = u32::from_le_bytes(b.get(*p..*p + 4)?.try_into().ok()?) as usize;
            *p += 4;
            let v = b.get(*p..*p + l)?.to_vec();
            *p += l;
            Some(v)
        };
        let value = rd64(&mut p)?;
        let msg = String::from_utf8_lossy(&rdb(&mut p)?).to_string();
        let pkt = rdb(&mut p)?;
        let mbuff = rdb(&mut p)?;
        let n = u32::from_le_bytes(b.get(p..p + 4)?.try_into().ok()?) as usize;
        p += 4;
        let mut log = Vec::new();
        for _ in 0..n {
            let j = rd64(&mut p)?;
            let mut args = [0u64; 5];
            for a in args.iter_mut() {
                *a = rd64(&mut p)?;
            }
            let rsp = rd64(&mut p)?;
            log.push(hlp::LogEntry { j, args, rsp });
        }
        let soaked = b.get(p..p + 4).and_then(|x| x.try_into().ok()).map(u32::from_le_bytes).unwrap_or(0);
        Some(ChildRec { status, value, msg, pkt, mbuff, log, canary_ok, soaked })
    }
}

/// Executable memory for the no_std JIT (rbpf built without `std` needs caller-supplied memory).
#[cfg(not(any(feature = "std", feature = "stdlite")))]
pub fn exec_memory(len: usize) -> &'static mut [u8] {
    unsafe {
        let p = libc::mmap(std::ptr::null_mut(), len, libc::PROT_READ | libc::PROT_WRITE | libc::PROT_EXEC, libc::MAP_PRIVATE | libc::MAP_ANONYMOUS, -1, 0) as *mut u8;
        assert!(p as isize != -1, "mmap rwx failed");
        std::slice::from_raw_parts_mut(p, len)
    }
}

/// `mov r0, 1001; exit`
static ELDER_PROG: [u8; 16] = [0xb7, 0, 0, 0, 0xe9, 0x03, 0, 0, 0x95, 0, 0, 0, 0, 0, 0, 0];
thread_local! {
    /// a compiled VM that stays alive while this process compiles, runs and drops hundreds of other
    /// VMs: (vm, engine, other cases seen since it was compiled)
    static ELDER: std::cell::RefCell<Option<(Vm<'static>, Engine, u32)>> = const { std::cell::RefCell::new(None) };
}

/// Long-lived compiled VM: created at the first compiled case of a (child) process, re-executed
/// every 32nd case after it. Code regions, pools or tables shared between VMs inside the crate must
/// not let later compilations disturb it, however many there are.
fn elder_check(engine: Engine) -> Option<String> {
    if cfg!(miri) || engine == Engine::Interp {
        return None;
    }
    ELDER.with(|e| {
        let mut e = e.borrow_mut();
        let run = |vm: &mut Vm<'static>| -> Result<u64, String> {
            match sys::catch(|| unsafe {
                match engine {
                    Engine::Jit => vm.exec_jit((std::ptr::null_mut(), 0), (std::ptr::null_mut(), 0)),
                    #[cfg(feature = "std")]
                    Engine::Cranelift => vm.exec_cl((std::ptr::null_mut(), 0), (std::ptr::null_mut(), 0)),
                    _ => Ok(1001),
                }
            }) {
                Ok(r) => r,
                Err(p) => Err(format!("panic: {p}")),
            }
        };
        match e.as_mut() {
            Some((vm, eng, seen)) if *eng == engine => {
                *seen += 1;
                if *seen % 32 == 0 || (250..=262).contains(seen) {
                    let r = run(vm);
                    if r != Ok(1001) {
                        return Some(format!("a compiled VM (`mov r0, 1001; exit`, {}) kept alive in this process returned {:?} after {} other VMs were compiled, run and dropped", engine.name(), r, seen));
                    }
                }
                None
            }
            _ => {
                let made = sys::catch(|| -> Result<Vm<'static>, String> {
                    let mut vm = Vm::new(Kind::NoData, Some(&ELDER_PROG), (0, 8))?;
                    #[cfg(not(any(feature = "std", feature = "stdlite")))]
                    if engine == Engine::Jit {
                        let _ = vm.set_jit_exec_memory(exec_memory(8192));
                    }
                    match engine {
                        Engine::Jit => vm.jit_compile()?,
                        #[cfg(feature = "std")]
                        Engine::Cranelift => vm.cl_compile()?,
                        _ => {}
                    }
                    Ok(vm)
                });
                if let Ok(Ok(mut vm)) = made {
                    if run(&mut vm) == Ok(1001) {
                        *e = Some((vm, engine, 0));
                    }
                }
                None
            }
        }
    })
}

/// Body executed inside the child for one case: compile with `engine`, execute, write record.
pub fn child_run_case(c: &Case, bufs: &Bufs, engine: Engine, family: Family, out: &mut Vec<u8>) {
    bufs.reset(c);
    hlp::log_reset();
    let mut rec = ChildRec { status: 0, value: 0, msg: String::new(), pkt: Vec::new(), mbuff: Vec::new(), log: Vec::new(), canary_ok: true, soaked: 0 };
    if let Some(m) = elder_check(engine) {
        rec.status = 6;
        rec.msg = m;
        rec.encode(out);
        return;
    }
    let built = sys::catch(|| build_vm(c, family));
    let mut vm = match built {
        Ok(Ok(v)) => v,
        Ok(Err(e)) => {
            rec.status = 5;
            rec.msg = e;
            rec.encode(out);
            return;
        }
        Err(p) => {
            rec.status = 2;
            rec.msg = p;
            rec.encode(out);
            return;
        }
    };
    #[cfg(not(any(feature = "std", feature = "stdlite")))]
    if engine == Engine::Jit {
        // generous: 64 bytes of code per instruction slot plus prologue/epilogue
        let need = (c.prog.len() / 8 * 64 + 8192 + 4095) & !4095;
        let _ = vm.set_jit_exec_memory(exec_memory(need));
    }
    // A third of the compiled cases that use helpers or a calculator are first compiled with DECOY
    // helpers (the function registered under each id shifted by one) and a decoy calculator, then
    // re-configured correctly and compiled again: the second compilation must describe the VM as it
    // is now (a compile that keeps earlier code makes the helper log / result disagree).
    // the OTHER compiler is tried first on a seventh of the cases (Cranelift refuses local calls)
    #[cfg(feature = "std")]
    if engine != Engine::Interp && (c.prog.len() / 8) % 7 == 4 {
        let _ = sys::catch(|| match engine {
            Engine::Jit => vm.cl_compile(),
            _ => vm.jit_compile(),
        });
    }
    // Another sixth: the first compilation FAILS (a VM without the helpers the program calls), then
    // the helpers are registered on that VM and it is compiled again.
    if engine != Engine::Interp && (c.prog.len() / 8) % 6 == 5 && !c.helpers.is_empty() && c.kind != Kind::Fixed {
        let fresh = sys::catch(|| -> Result<Vm, String> {
            let mut v2 = Vm::new(c.kind, Some(&c.prog), c.offs)?;
            #[cfg(not(any(feature = "std", feature = "stdlite")))]
            if engine == Engine::Jit {
                let need = (c.prog.len() / 8 * 64 + 8192 + 4095) & !4095;
                let _ = v2.set_jit_exec_memory(exec_memory(need));
            }
            let first = match engine {
                Engine::Jit => v2.jit_compile(),
                #[cfg(feature = "std")]
                Engine::Cranelift => v2.cl_compile(),
                _ => Ok(()),
            };
            let _ = first; // Err when a called id is missing; Ok when the calls are unreachable... either way:
            for (id, j) in &c.helpers {
                v2.register_helper(*id, helper_for(*j, family))?;
            }
            if c.calc != CalcSpec::None {
                v2.set_calc(calc_fn, Box::new(c.calc.clone()))?;
            }
            Ok(v2)
        });
        match fresh {
            Ok(Ok(v2)) => vm = v2,
            other => {
                rec.status = 5;
                rec.msg = format!("VM set-up after a failed compilation failed: {:?}", other.map(|r| r.map(|_| ())));
                rec.encode(out);
                return;
            }
        }
        #[cfg(not(any(feature = "std", feature = "stdlite")))]
        if engine == Engine::Jit {
            let need = (c.prog.len() / 8 * 64 + 8192 + 4095) & !4095;
            let _ = vm.set_jit_exec_memory(exec_memory(need));
        }
    }
    if engine != Engine::Interp && (c.prog.len() / 8) % 3 == 1 && (!c.helpers.is_empty() || c.calc != CalcSpec::None) {
        let _ = sys::catch(|| -> Result<(), String> {
            for (id, j) in &c.helpers {
                vm.register_helper(*id, helper_for((*j + 1) % hlp::NH, family))?;
            }
            if c.calc != CalcSpec::None {
                vm.set_calc(calc_fn, Box::new(CalcSpec::Const(48)))?;
            }
            match engine {
                Engine::Jit => vm.jit_compile()?,
                #[cfg(feature = "std")]
                Engine::Cranelift => vm.cl_compile()?,
                _ => {}
            }
            Ok(())
        });
        let redo = sys::catch(|| -> Result<(), String> {
            for (id, j) in &c.helpers {
                vm.register_helper(*id, helper_for(*j, family))?;
            }
            if c.calc != CalcSpec::None {
                vm.set_calc(calc_fn, Box::new(c.calc.clone()))?;
            }
            Ok(())
        });
        // (no_std: a compilation consumes the caller-supplied memory; hand over a new region)
        #[cfg(not(any(feature = "std", feature = "stdlite")))]
        if engine == Engine::Jit {
            let need = (c.prog.len() / 8 * 64 + 8192 + 4095) & !4095;
            let _ = vm.set_jit_exec_memory(exec_memory(need));
        }
        if !matches!(redo, Ok(Ok(()))) {
            rec.status = 5;
            rec.msg = format!("re-configuration after a decoy compilation failed: {redo:?}");
            rec.encode(out);
            return;
        }
    }
    let comp = sys::catch(|| match engine {
        Engine::Jit => vm.jit_compile(),
        #[cfg(feature = "std")]
        Engine::Cranelift => vm.cl_compile(),
        #[cfg(not(feature = "std"))]
        Engine::Cranelift => Err("cranelift not built in this variant".to_string()),
        Engine::Interp => Ok(()),
    });
    match comp {
        Ok(Ok(())) => {}
        Ok(Err(e)) => {
            rec.status = 1;
            rec.msg = e;
            rec.encode(out);
            return;
        }
        Err(p) => {
            rec.status = 2;
            rec.msg = p;
            rec.encode(out);
            return;
        }
    }
    let r = sys::catch(|| unsafe {
        match engine {
            Engine::Jit => vm.exec_jit(bufs.pkt_raw(), bufs.mbuff_raw()),
            #[cfg(feature = "std")]
            Engine::Cranelift => vm.exec_cl(bufs.pkt_raw(), bufs.mbuff_raw()),
            #[cfg(not(feature = "std"))]
            Engine::Cranelift => Err("cranelift not built in this variant".to_string()),
            Engine::Interp => vm.exec(bufs.pkt_raw(), bufs.mbuff_raw()),
        }
    });
    match r {
        Ok(Ok(v)) => {
            rec.value = v;
            // history independence: run some cases a second time on the same compiled VM
            if engine != Engine::Interp && (c.prog.len() % 32 == 8 || c.prog.len() % 56 == 16) {
                let pkt1 = bufs.pkt_bytes();
                let nlog1 = hlp::log_total();
                bufs.reset(c);
                hlp::log_reset();
                let r2 = sys::catch(|| unsafe {
                    match engine {
                        Engine::Jit => vm.exec_jit(bufs.pkt_raw(), bufs.mbuff_raw()),
                        #[cfg(feature = "std")]
                        Engine::Cranelift => vm.exec_cl(bufs.pkt_raw(), bufs.mbuff_raw()),
                        _ => Ok(v),
                    }
                });
                let same = matches!(&r2, Ok(Ok(v2)) if *v2 == v) && pkt1 == bufs.pkt_bytes() && nlog1 == hlp::log_total();
                if !same {
                    rec.status = 6;
                    rec.msg = format!("first execution returned {v:#x}; a second execution of the same compiled program on the restored buffers gave {:?}", r2.map(|x| x.map_err(|e| e.chars().take(60).collect::<String>())));
                }
            }
            // accumulation: one short case in SOAK_EVERY / 4 is executed SOAK_N more times on the
            // same compiled VM, then re-compiled 300 times (executed after each re-compilation)
            if engine != Engine::Interp && rec.status == 0 && c.prog.len() <= 8 * 64 && soak_due_compiled(c) {
                let pkt1 = bufs.pkt_bytes();
                let nlog1 = hlp::log_total();
                let n = soak_n();
                let recompiles = if n >= 66_000 { 300 } else { 4 };
                let mut plain_round = false;
                for k in 0..n + recompiles {
                    if k >= n {
                        #[cfg(not(any(feature = "std", feature = "stdlite")))]
                        if engine == Engine::Jit {
                            let need = (c.prog.len() / 8 * 64 + 8192 + 4095) & !4095;
                            let _ = vm.set_jit_exec_memory(exec_memory(need));
                        }
                        // the helpers are registered again before every re-compilation - a decoy
                        // function first, then the right one: the code compiled now must call the
                        // function registered NOW, however many registrations the VM has seen
                        // (odd rounds end on the PLAIN twin of each function - same index, same result,
                        // but it records no entry stack pointer - so the log shows which registration
                        // the compiled code really calls)
                        plain_round = (k - n) % 2 == 0 && !matches!(family, Family::Plain); // (the last round is not a plain one: the record keeps its log)
                        for (id, j) in &c.helpers {
                            let _ = vm.register_helper(*id, helper_for((*j + 1) % hlp::NH, family));
                            let _ = vm.register_helper(*id, helper_for(*j, if plain_round { Family::Plain } else { family }));
                        }
                        // every 50th round: a burst of re-loads (placeholder / program alternating, ending
                        // on the program) of a length around 2^8 or 2^9; compiled code must then be
                        // reported as missing, whatever the number of loads since it was compiled
                        if (k - n) % 50 == 7 {
                            let burst = [254usize, 256, 258, 510, 512, 514][((k - n) / 50 % 6) as usize];
                            let mut lerr = None;
                            for b in 0..burst {
                                let r = if b % 2 == 0 { vm.set_program(&DUMMY_PROG, c.offs) } else { vm.set_program(&c.prog, c.offs) };
                                if let Err(e) = r {
                                    lerr = Some(format!("load #{b} of a burst refused: {e}"));
                                    break;
                                }
                            }
                            let stale = sys::catch(|| unsafe {
                                match engine {
                                    Engine::Jit => vm.exec_jit(bufs.pkt_raw(), bufs.mbuff_raw()),
                                    #[cfg(feature = "std")]
                                    Engine::Cranelift => vm.exec_cl(bufs.pkt_raw(), bufs.mbuff_raw()),
                                    _ => Err(String::new()),
                                }
                            });
                            if lerr.is_some() || !matches!(stale, Ok(Err(_))) {
                                rec.status = 6;
                                rec.msg = format!("after {burst} consecutive successful set_program calls since the last compilation, executing compiled code gave {:?} instead of the not-compiled error {}", stale.map(|x| x.map_err(|e| e.chars().take(50).collect::<String>())), lerr.unwrap_or_default());
                                break;
                            }
                            bufs.reset(c);
                            hlp::log_reset();
                        }
                        let rc = sys::catch(|| match engine {
                            Engine::Jit => vm.jit_compile(),
                            #[cfg(feature = "std")]
                            Engine::Cranelift => vm.cl_compile(),
                            _ => Ok(()),
                        });
                        if !matches!(rc, Ok(Ok(()))) {
                            rec.status = 6;
                            rec.msg = format!("re-compilation #{} of the same program on the same VM: {:?}", k - n + 1, rc);
                            break;
                        }
                    }
                    bufs.reset(c);
                    hlp::log_reset();
                    let rk = sys::catch(|| unsafe {
                        match engine {
                            Engine::Jit => vm.exec_jit(bufs.pkt_raw(), bufs.mbuff_raw()),
                            #[cfg(feature = "std")]
                            Engine::Cranelift => vm.exec_cl(bufs.pkt_raw(), bufs.mbuff_raw()),
                            _ => Ok(v),
                        }
                    });
                    let mut same = matches!(&rk, Ok(Ok(vk)) if *vk == v) && nlog1 == hlp::log_total();
                    if same && (k % 64 == 63 || k + 1 == n + recompiles || k < 4 || k >= n) {
                        same = pkt1 == bufs.pkt_bytes();
                    }
                    if same && k >= n && !matches!(family, Family::Plain) && !cfg!(miri) {
                        let lg = hlp::log_take();
                        if lg.iter().any(|e| (e.rsp == 0) != plain_round) {
                            rec.status = 6;
                            rec.msg = format!("after {} register_helper calls per id on this VM and a re-compilation, the compiled code still calls a function registered EARLIER under the same id (round {} of re-registration, the {} twin was registered last)", 2 * (k - n + 1), k - n + 1, if plain_round { "plain" } else { "stack-recording" });
                            break;
                        }
                    }
                    if !same {
                        rec.status = 6;
                        rec.msg = format!("first execution returned {v:#x}; execution #{} of the same compiled program on the same VM{} gave {:?} ({} helper calls vs {nlog1})", k + 2, if k >= n { format!(" (after {} re-compilations)", k - n + 1) } else { String::new() }, rk.map(|x| x.map_err(|e| e.chars().take(60).collect::<String>())), hlp::log_total());
                        break;
                    }
                }
                rec.soaked = (n + recompiles) as u32;
            }
        }
        Ok(Err(e)) => {
            rec.status = 3;
            rec.msg = e;
        }
        Err(p) => {
            rec.status = 4;
            rec.msg = p;
        }
    }
    rec.pkt = bufs.pkt_bytes();
    rec.mbuff = bufs.mbuff_bytes();
    rec.log = hlp::log_take();
    rec.canary_ok = bufs.canaries_ok();
    rec.encode(out);
}

pub enum EngineEnd {
    Rec(ChildRec),
    Signal(i32),
    Diverged,
    Inconclusive(String),
}

/// Run all `cases` on a compiled engine in forked children.
pub fn run_compiled(cases: &[(&Case, &Bufs)], engine: Engine, family: Family) -> Vec<EngineEnd> {
    run_compiled_lim(cases, engine, family, 30, 40)
}

/// `cpu_batch`: CPU seconds for the whole batch; `cpu_alone`: for the re-run of a case that was
/// running when the batch limit hit (a case that exhausts that too has diverged: the interpreter
/// finished the same program within the step budget, i.e. in milliseconds).
pub fn run_compiled_lim(cases: &[(&Case, &Bufs)], engine: Engine, family: Family, cpu_batch: u64, cpu_alone: u64) -> Vec<EngineEnd> {
    let ends = sys::run_batch(cases.len(), cpu_batch, cpu_alone, |i, out| {
        let (c, b) = cases[i];
        child_run_case(c, b, engine, family, out);
    });
    ends.into_iter()
        .map(|e| match e {
            CaseEnd::Done(b) => match ChildRec::decode(&b) {
                Some(r) => EngineEnd::Rec(r),
                None => EngineEnd::Inconclusive("undecodable child record".into()),
            },
            CaseEnd::Died(s, _) => EngineEnd::Signal(s),
            CaseEnd::CpuTimeout => EngineEnd::Diverged,
            CaseEnd::Inconclusive(s) => EngineEnd::Inconclusive(s),
        })
        .collect()
}
