//! C06: the default verifier accepts exactly the well-formed programs.
//! Oracle: `ref_verify` (the property sentence as code). Observation: Ok/Err of `EbpfVm*::new` and
//! `set_program`, under catch_unwind.

use crate::engines::{Kind, Vm};
use crate::genp;
use crate::isa::*;
use crate::report::Report;
use crate::sys;
use crate::util::{Rng, hex};
use crate::Args;
use serde_json::json;

/// Reference verifier. Ok(()) = well-formed, Err(rule) = names the first rule found violated.
pub fn ref_verify(prog: &[u8]) -> Result<(), &'static str> {
    if prog.is_empty() {
        return Err("empty");
    }
    if prog.len() % 8 != 0 {
        return Err("length-not-multiple-of-8");
    }
    let n = prog.len() / 8;
    if n > 1_000_000 {
        return Err("too-long");
    }
    // pass 1: instruction boundaries
    let mut is_hi = vec![false; n];
    let mut pc = 0;
    while pc < n {
        let i = decode_at(prog, pc);
        if i.opc == LDDW {
            if pc + 1 >= n {
                return Err("lddw-without-second-half");
            }
            if decode_at(prog, pc + 1).opc != 0 {
                return Err("lddw-second-half-opcode");
            }
            is_hi[pc + 1] = true;
            pc += 2;
        } else {
            pc += 1;
        }
    }
    let mut pc = 0;
    while pc < n {
        if is_hi[pc] {
            pc += 1;
            continue;
        }
        let i = decode_at(prog, pc);
        let Some(info) = op_info(i.opc) else { return Err("unsupported-opcode") };
        let store = matches!(info.shape, Shape::StImm | Shape::StReg | Shape::Xadd);
        match info.shape {
            Shape::Endian => {
                if !matches!(i.imm, 16 | 32 | 64) {
                    return Err("endian-width");
                }
            }
            Shape::Xadd => {
                if i.imm != 0 {
                    return Err("atomic-imm");
                }
            }
            Shape::Ja | Shape::JmpImm | Shape::JmpReg => {
                if i.off == -1 {
                    return Err("jump-to-self");
                }
                let t = pc as i64 + 1 + i.off as i64;
                if t < 0 || t >= n as i64 {
                    return Err("jump-out-of-program");
                }
                if is_hi[t as usize] || decode_at(prog, t as usize).opc == 0 {
                    return Err("jump-into-lddw");
                }
            }
            Shape::Call => match i.src {
                0 => {}
                1 => {
                    let t = pc as i64 + 1 + i.imm as i64;
                    if t < 0 || t >= n as i64 {
                        return Err("call-out-of-program");
                    }
                    if is_hi[t as usize] || decode_at(prog, t as usize).opc == 0 {
                        return Err("call-into-lddw");
                    }
                }
                _ => return Err("call-kind"),
            },
            Shape::TailCall => return Err("tail-call"),
            _ => {}
        }
        if i.src > 10 {
            return Err("src-register");
        }
        if i.dst > 10 {
            return Err("dst-register");
        }
        if i.dst == 10 && !store {
            return Err("dst-r10");
        }
        pc += 1;
    }
    // last instruction: exit or unconditional jump (and not the second half of an lddw)
    if is_hi[n - 1] {
        return Err("last-instruction");
    }
    let last = decode_at(prog, n - 1);
    if last.opc != EXIT && last.opc != JA {
        return Err("last-instruction");
    }
    Ok(())
}

#[derive(Clone, Copy, PartialEq, Eq, Debug)]
enum Real {
    Ok,
    Err,
    Panic,
}

fn v_reject_all(_p: &[u8]) -> Result<(), rbpf::lib::Error> {
    Err(rbpf::lib::Error::other("harness: rejects everything"))
}
const HELD: [u8; 16] = [0xb7, 0, 0, 0, 1, 0, 0, 0, 0x95, 0, 0, 0, 0, 0, 0, 0];

fn real_verify(kind: Kind, prog: &[u8], via_set: bool) -> (Real, String) {
    let r = sys::catch(|| {
        if via_set && prog.len() % 24 == 8 {
            // a VM that holds a program and on which a set_verifier() call FAILED (the candidate
            // refuses the loaded program): the default verifier must still be the one in force
            let mut vm = Vm::new(kind, Some(&HELD), (0, 8)).map_err(|e| format!("new(held) failed: {e}"))?;
            if vm.set_verifier(v_reject_all).is_ok() {
                return Err("set_verifier(reject-all) succeeded on a VM holding a program".to_string());
            }
            vm.set_program(prog, (0, 8))
        } else if via_set {
            let mut vm = Vm::new(kind, None, (0, 8)).map_err(|e| format!("new(None) failed: {e}"))?;
            vm.set_program(prog, (0, 8))
        } else {
            Vm::new(kind, Some(prog), (0, 8)).map(|_| ())
        }
    });
    match r {
        Ok(Ok(())) => (Real::Ok, String::new()),
        Ok(Err(e)) => (Real::Err, e),
        Err(p) => (Real::Panic, p),
    }
}

/// a sample of the inputs, re-verified by 8 threads at once at the end of the run
static PAR_SAMPLE: std::sync::Mutex<Vec<Vec<u8>>> = std::sync::Mutex::new(Vec::new());

fn check(rep: &mut Report, prog: &[u8], origin: &str, rng: &mut Rng) {
    if prog.len() <= 2048 && rep.get("evaluations") % 13 == 0 {
        let mut s = PAR_SAMPLE.lock().unwrap();
        if s.len() < 8000 {
            s.push(prog.to_vec());
        }
    }
    let want = ref_verify(prog);
    let kind = crate::engines::KINDS[rng.below(4) as usize];
    let via_set = rng.chance(1, 2);
    let (got, msg) = real_verify(kind, prog, via_set);
    rep.set("origins", origin.split(':').next().unwrap_or(origin));
    let h = crate::util::fnv(prog);
    rep.case(Some(h));
    match &want {
        Ok(()) => rep.count("ref_accepts"),
        Err(r) => {
            rep.count("ref_rejects");
            rep.set("reject_rules_exercised", *r);
        }
    }
    let bad = match (&want, got) {
        (_, Real::Panic) => Some(("panic", format!("verifier panicked: {msg}"))),
        (Ok(()), Real::Err) => Some(("wrongly-rejected", format!("well-formed program refused: {msg}"))),
        (Err(rule), Real::Ok) => Some(("wrongly-accepted", format!("ill-formed program accepted (rule: {rule})"))),
        _ => None,
    };
    if rep.want_sample() && rep.get("evaluations") % 5003 == 7 {
        rep.sample(json!({"prog": hex(&prog[..prog.len().min(256)]), "len": prog.len(), "origin": origin, "reference": format!("{want:?}"), "real": format!("{got:?}")}));
    }
    if bad.is_none() && rng.chance(1, 4) {
        check_same_address(rep, prog, &want, rng);
    }
    if let Some((k, detail)) = bad {
        let rule = match &want {
            Err(r) => *r,
            Ok(()) => "well-formed",
        };
        // which rule does the real verifier quote (first words of its message)?
        let said = if got == Real::Err { sys::panic_site(&msg.chars().take(48).collect::<String>()) } else { String::new() };
        let sig = format!("C06:{k}:{rule}:{}", if k == "wrongly-rejected" { said } else { String::new() });
        let p = if prog.len() <= 4096 { hex(prog) } else { format!("{}...({} bytes)", hex(&prog[..256]), prog.len()) };
        rep.violation(&sig, detail, json!({"kind": "verify-case", "prog": p, "len": prog.len(), "origin": origin, "vm": kind.name(), "via_set_program": via_set, "disasm": genp::disasm_lossy(&prog[..prog.len().min(8 * 48) / 8 * 8], 48)}));
    }
}

/// Re-load on a VM that already holds ANOTHER slice starting at the same address (a shorter or a
/// longer slice of the same buffer): the verdict must be the reference's for the slice now loaded.
fn check_same_address(rep: &mut Report, prog: &[u8], want: &Result<(), &'static str>, rng: &mut Rng) {
    if prog.len() > 8 * 4096 || prog.is_empty() || prog.len() % 8 != 0 {
        return;
    }
    // (first slice, second slice) as lengths into one buffer
    let mut buf = prog.to_vec();
    let (first, second): (usize, usize) = match want {
        Ok(()) => {
            // extend the accepted program by one instruction; the reference judges the longer slice
            let tail = *rng.pick(&[Insn::new(JA, 0, 0, 100, 0), Insn::new(0xff, 0, 0, 0, 0), Insn::new(EXIT, 0, 0, 0, 0), Insn::new(MOV64_IMM, 0, 0, 0, 7), Insn::new(LDDW, 1, 0, 0, 5)]);
            buf.extend_from_slice(&tail.bytes());
            (prog.len(), buf.len())
        }
        Err(_) => {
            // a well-formed prefix ending in `exit`, if there is one
            let mut k = 8;
            let mut found = None;
            while k < prog.len() && found.is_none() {
                if prog[k - 8] == EXIT && ref_verify(&prog[..k]).is_ok() {
                    found = Some(k);
                }
                k += 8;
            }
            match found {
                Some(k) => (k, prog.len()),
                None => return,
            }
        }
    };
    buf.shrink_to_fit();
    let want2 = ref_verify(&buf[..second]);
    let kind = crate::engines::KINDS[rng.below(4) as usize];
    let r = sys::catch(|| -> Result<Result<(), String>, String> {
        let mut vm = Vm::new(kind, Some(&buf[..first]), (0, 8)).map_err(|e| format!("first slice refused: {e}"))?;
        Ok(vm.set_program(&buf[..second], (0, 8)))
    });
    rep.count("same_address_reloads");
    let (got, msg) = match r {
        Ok(Ok(Ok(()))) => (Real::Ok, String::new()),
        Ok(Ok(Err(e))) => (Real::Err, e),
        Ok(Err(e)) => {
            rep.violation("C06:wrongly-rejected:well-formed:first-slice", format!("a slice the reference accepts was refused: {e}"), json!({"kind": "verify-case", "prog": hex(&buf[..first.min(4096)]), "len": first, "origin": "same-address-reload", "vm": kind.name()}));
            return;
        }
        Err(p) => (Real::Panic, p),
    };
    let bad = match (&want2, got) {
        (_, Real::Panic) => Some(("panic", format!("verifier panicked: {msg}"))),
        (Ok(()), Real::Err) => Some(("wrongly-rejected", format!("well-formed program refused: {msg}"))),
        (Err(rule), Real::Ok) => Some(("wrongly-accepted", format!("ill-formed program accepted (rule: {rule})"))),
        _ => None,
    };
    if let Some((k, detail)) = bad {
        let rule = match &want2 {
            Err(r) => *r,
            Ok(()) => "well-formed",
        };
        rep.violation(&format!("C06:{k}:{rule}:same-address-reload"), format!("{detail} - the VM held the first {first} bytes of the same buffer when the {second}-byte slice was loaded"),
            json!({"kind": "verify-case", "prog": hex(&buf[..second.min(4096)]), "len": second, "first_slice_len": first, "origin": "same-address-reload", "vm": kind.name(), "via_set_program": true}));
    }
}

fn valid_base(rng: &mut Rng) -> Vec<u8> {
    match rng.below(3) {
        0 => genp::gen_struct(rng, &genp::StructOpts::default()).0.prog,
        1 => {
            let i = rng.next() % 100_000;
            genp::gen_micro(rng, i).0.prog
        }
        _ => genp::gen_soup(rng),
    }
}

pub fn run(a: &Args, rep: &mut Report) {
    let q = a.tier == "quick";
    let mut rng = Rng::derive(a.seed, a.shard, 6);
    let exit = Insn::new(EXIT, 0, 0, 0, 0).bytes();
    let nop = Insn::new(MOV64_IMM, 0, 0, 0, 0).bytes();

    // (i) exhaustive (opcode byte x register byte) in first / middle / last position, each shard a slice
    for code in 0..65536u32 {
        if code as u64 % a.nshards != a.shard {
            continue;
        }
        let opc = (code >> 8) as u8;
        let regs = code as u8;
        for pos in 0..3 {
            for variant in 0..2 {
                let mut ins = [opc, regs, 0, 0, 0, 0, 0, 0];
                // give jumps/calls/endian/lddw a shape that passes the other rules when variant==0
                let off: i16 = if variant == 0 { 1 } else { 0 };
                ins[2..4].copy_from_slice(&off.to_le_bytes());
                let imm: i32 = if opc == LE || opc == BE { 16 } else if variant == 0 { 1 } else { 0 };
                ins[4..8].copy_from_slice(&imm.to_le_bytes());
                let mut p: Vec<u8> = Vec::new();
                match pos {
                    0 => {
                        p.extend_from_slice(&ins);
                        if opc == LDDW {
                            p.extend_from_slice(&[0; 8]);
                        }
                        p.extend_from_slice(&nop);
                        p.extend_from_slice(&nop);
                        p.extend_from_slice(&exit);
                    }
                    1 => {
                        p.extend_from_slice(&nop);
                        p.extend_from_slice(&ins);
                        if opc == LDDW {
                            p.extend_from_slice(&[0; 8]);
                        }
                        p.extend_from_slice(&nop);
                        p.extend_from_slice(&nop);
                        p.extend_from_slice(&exit);
                    }
                    _ => {
                        p.extend_from_slice(&nop);
                        p.extend_from_slice(&nop);
                        p.extend_from_slice(&nop);
                        let mut l = ins;
                        // as last instruction a forward offset is out of range: use a backward one
                        l[2..4].copy_from_slice(&(-2i16).to_le_bytes());
                        if variant == 0 {
                            l[4..8].copy_from_slice(&(-2i32).to_le_bytes());
                            if opc == LE || opc == BE {
                                l[4..8].copy_from_slice(&16i32.to_le_bytes());
                            }
                        }
                        p.extend_from_slice(&l);
                    }
                }
                check(rep, &p, "exhaustive-opc-reg", &mut rng);
            }
        }
    }
    rep.set("exhaustive_slices", format!("opcode x regbyte slice {}/{}", a.shard, a.nshards));

    // (ii) boundary sets
    // lengths
    if a.shard == 0 {
        for len in [0usize, 1, 2, 7, 8, 9, 15, 16, 17, 23, 24] {
            let mut p = vec![0u8; len];
            if len >= 8 {
                let k = len / 8 * 8;
                p[k - 8..k].copy_from_slice(&exit);
                for c in p[..k - 8].chunks_mut(8) {
                    if c.len() == 8 {
                        c.copy_from_slice(&nop);
                    }
                }
            }
            check(rep, &p, "length", &mut rng);
        }
        for n in [999_999usize, 1_000_000, 1_000_001] {
            let mut p = Vec::with_capacity(n * 8 + 8);
            for _ in 0..n - 1 {
                p.extend_from_slice(&nop);
            }
            p.extend_from_slice(&exit);
            check(rep, &p, "length-limit", &mut rng);
            p.push(0);
            check(rep, &p, "length-limit+1byte", &mut rng);
            // the limit counts 8-byte slots: the same lengths with wide loads inside
            let mut p = Vec::with_capacity(n * 8 + 8);
            let lddws = 1 + rng.below(40) as usize;
            for _ in 0..lddws {
                p.extend_from_slice(&Insn::new(LDDW, 1, 0, 0, 7).bytes());
                p.extend_from_slice(&[0u8; 8]);
            }
            for _ in 0..n - 1 - 2 * lddws {
                p.extend_from_slice(&nop);
            }
            p.extend_from_slice(&exit);
            check(rep, &p, "length-limit-with-lddw", &mut rng);
        }
    }
    // jump / call displacement sweep around program bounds and lddw halves
    let jops: Vec<u8> = all_supported_opcodes().into_iter().filter(|o| matches!(op_info(*o).unwrap().shape, Shape::Ja | Shape::JmpImm | Shape::JmpReg)).collect();
    let rounds = if q { 40 } else { 2000 };
    for _ in 0..rounds {
        // layout: [nop]*a [J] [nop]*b [lddw(2)] [nop]*c exit
        let na = rng.below(5) as i64;
        let nb = rng.below(4) as i64;
        let nc = rng.below(4) as i64;
        let n = na + 1 + nb + 2 + nc + 1;
        let jpc = na;
        let use_call = rng.chance(1, 3);
        let opc = if use_call { CALL } else { *rng.pick(&jops) };
        for t in -2..=n + 1 {
            let d = t - (jpc + 1);
            let mut v: Vec<Insn> = Vec::new();
            for _ in 0..na {
                v.push(Insn::new(MOV64_IMM, 1, 0, 0, 0));
            }
            if use_call {
                v.push(Insn::new(CALL, 0, 1, 0, d as i32));
            } else {
                v.push(Insn::new(opc, rng.below(10) as u8, rng.below(10) as u8, d as i16, 3));
            }
            for _ in 0..nb {
                v.push(Insn::new(MOV64_IMM, 2, 0, 0, 0));
            }
            v.push(Insn::new(LDDW, 3, 0, 0, 7));
            // the second half only needs a zero opcode: its other fields are arbitrary
            if rng.chance(1, 2) {
                v.push(Insn::new(0, 0, 0, 0, 9));
            } else {
                v.push(Insn::new(0, rng.below(16) as u8, rng.below(16) as u8, rng.next() as i16, rng.next() as i32));
            }
            for _ in 0..nc {
                v.push(Insn::new(MOV64_IMM, 4, 0, 0, 0));
            }
            v.push(Insn::new(EXIT, 0, 0, 0, 0));
            check(rep, &encode_prog(&v), if use_call { "call-displacement-sweep" } else { "jump-displacement-sweep" }, &mut rng);
        }
        // far displacements
        for d in [i16::MIN as i64, i16::MAX as i64, -32767, 32766] {
            let mut v = vec![Insn::new(opc, 1, 1, d as i16, if use_call { d as i32 } else { 0 }), Insn::new(EXIT, 0, 0, 0, 0)];
            if use_call {
                v[0].src = 1;
                v[0].dst = 0;
            }
            check(rep, &encode_prog(&v), "far-displacement", &mut rng);
        }
        for d in [i32::MIN, i32::MAX, -3, 100_000] {
            let v = vec![Insn::new(CALL, 0, 1, 0, d), Insn::new(EXIT, 0, 0, 0, 0)];
            check(rep, &encode_prog(&v), "far-call", &mut rng);
        }
    }
    // endian imm, xadd imm, call kinds, last instruction of every class
    if a.shard % 4 == 1 || a.nshards == 1 {
        for imm in [-1, 0, 1, 8, 15, 16, 17, 24, 31, 32, 33, 48, 63, 64, 65, 128, i32::MAX, i32::MIN] {
            for opc in [LE, BE] {
                let v = vec![Insn::new(opc, 1, 0, 0, imm), Insn::new(EXIT, 0, 0, 0, 0)];
                check(rep, &encode_prog(&v), "endian-imm", &mut rng);
            }
            for opc in [XADD_W, XADD_DW] {
                let v = vec![Insn::new(opc, 10, 1, -8, imm), Insn::new(EXIT, 0, 0, 0, 0)];
                check(rep, &encode_prog(&v), "xadd-imm", &mut rng);
            }
        }
        for src in 0..16u8 {
            let v = vec![Insn::new(CALL, 0, src, 0, 0), Insn::new(EXIT, 0, 0, 0, 0)];
            check(rep, &encode_prog(&v), "call-kind", &mut rng);
        }
        for opc in 0..=255u8 {
            for (off, imm) in [(0i16, 0i32), (-2, -2), (-1, 0), (-3, 16)] {
                let v = vec![Insn::new(MOV64_IMM, 0, 0, 0, 0), Insn::new(MOV64_IMM, 0, 0, 0, 0), Insn::new(opc, 0, 0, off, imm)];
                check(rep, &encode_prog(&v), "last-instruction", &mut rng);
                let v = vec![Insn::new(MOV64_IMM, 0, 0, 0, 0), Insn::new(LDDW, 0, 0, 0, 0), Insn::new(opc, 0, 0, off, imm)];
                check(rep, &encode_prog(&v), "last-is-lddw-half", &mut rng);
            }
        }
        // lddw second-half variations
        for opc2 in [0u8, 1, 0x18, 0x95, 0xb7, 0xff] {
            for regs in [0u8, 0x11, 0xaa, 0xff] {
                let mut p = Vec::new();
                p.extend_from_slice(&Insn::new(LDDW, 1, 0, 0, 5).bytes());
                p.extend_from_slice(&[opc2, regs, 1, 2, 3, 4, 5, 6]);
                p.extend_from_slice(&exit);
                check(rep, &p, "lddw-second-half", &mut rng);
            }
        }
        // lddw with r10 / as base of every register rule
        for d in 0..16u8 {
            for opc in all_supported_opcodes() {
                let mut v = vec![Insn::new(opc, d, 1, 1, if opc == LE || opc == BE { 32 } else { 0 })];
                if opc == LDDW {
                    v.push(Insn::new(0, 0, 0, 0, 0));
                }
                v.push(Insn::new(MOV64_IMM, 0, 0, 0, 0));
                v.push(Insn::new(EXIT, 0, 0, 0, 0));
                check(rep, &encode_prog(&v), "dst-register-rule", &mut rng);
            }
        }
    }

    // (iii) single-field mutations of valid programs, (iv) soup
    let n_mut = ((if q { 400_000.0 } else { 20_000_000.0 }) * a.scale) as u64 / a.nshards;
    let mut k = 0u64;
    while k < n_mut {
        let base = valid_base(&mut rng);
        check(rep, &base, "valid-base", &mut rng);
        k += 1;
        if base.is_empty() {
            continue;
        }
        for _ in 0..24 {
            let mut p = base.clone();
            let slot = rng.below((p.len() / 8) as u64) as usize * 8;
            let origin;
            match rng.below(9) {
                0 => {
                    p[slot] = rng.next() as u8;
                    origin = "mut:opcode";
                }
                1 => {
                    p[slot + 1] = rng.next() as u8;
                    origin = "mut:regs";
                }
                2 => {
                    let (o, _) = rng.interesting_i16();
                    p[slot + 2..slot + 4].copy_from_slice(&o.to_le_bytes());
                    origin = "mut:off";
                }
                3 => {
                    let (i, _) = rng.interesting_i32();
                    p[slot + 4..slot + 8].copy_from_slice(&i.to_le_bytes());
                    origin = "mut:imm";
                }
                4 => {
                    let d = rng.range(-3, 3) as i16;
                    let cur = i16::from_le_bytes([p[slot + 2], p[slot + 3]]);
                    p[slot + 2..slot + 4].copy_from_slice(&cur.wrapping_add(d).to_le_bytes());
                    origin = "mut:off-nudge";
                }
                5 => {
                    p.truncate(p.len() - rng.range(1, 8.min(p.len() as i64)) as usize);
                    origin = "mut:truncate";
                }
                6 => {
                    let n = p.len() / 8;
                    let at = rng.below(n as u64 + 1) as usize * 8;
                    let ins = Insn::new(*rng.pick(&all_supported_opcodes()), rng.below(12) as u8, rng.below(12) as u8, rng.range(-4, 4) as i16, rng.range(-4, 64) as i32).bytes();
                    for (j, b) in ins.iter().enumerate() {
                        p.insert(at + j, *b);
                    }
                    origin = "mut:insert";
                }
                7 => {
                    if p.len() > 8 {
                        p.drain(slot..slot + 8);
                    }
                    origin = "mut:delete";
                }
                _ => {
                    let b = rng.below(p.len() as u64) as usize;
                    p[b] ^= 1 << rng.below(8);
                    origin = "mut:bitflip";
                }
            }
            check(rep, &p, origin, &mut rng);
            k += 1;
        }
        if rng.chance(1, 4) {
            let n = rng.range(0, 40) as usize;
            let p = rng.bytes(n);
            check(rep, &p, "random-bytes", &mut rng);
            k += 1;
        }
    }
    // the verifier called from 8 threads at once, each on its own program: same verdicts as alone
    if !cfg!(miri) {
        let mut progs = std::mem::take(&mut *PAR_SAMPLE.lock().unwrap());
        // long programs whose only defect is at the very end (and their well-formed twins): a
        // verdict takes long enough for several threads to be inside the verifier on the same bytes
        for k in 0..12usize {
            let n = 20_000 + 3_000 * k;
            let mut p: Vec<u8> = Vec::with_capacity(8 * (n + 1));
            for j in 0..n {
                p.extend_from_slice(&Insn::new(MOV64_IMM, (j % 10) as u8, 0, 0, (j as i32) ^ (k as i32)).bytes());
            }
            p.extend_from_slice(&(if k % 2 == 0 { Insn::new(0xff, 0, 0, 0, 0) } else { Insn::new(EXIT, 0, 0, 0, 0) }).bytes());
            let at = (k * 601) % (progs.len() + 1);
            progs.insert(at, p);
        }
        let (execs, bad) = crate::mon_par::par_same(&progs, |p| real_verify(Kind::Raw, p, p.len() % 16 == 0).0, if q { 2 } else { 6 });
        crate::mon_par::report_par(rep, "C06", "verify", execs, bad, |i| json!({"prog": hex(&progs[i])}));
    }
}
