//! C20: transcript of a seeded corpus; the driver builds this binary twice (rbpf with and without
//! `std`) and compares the two transcripts line by line.

use crate::diff::{pre_run, BUDGET};
use crate::engines::Engine;
use crate::exec::{run_compiled, EngineEnd, Family, Ran};
use crate::genp;
use crate::isa::*;
use crate::refvm::Outcome;
use crate::report::Report;
use crate::sys;
use crate::util::{fnv, hex, Rng};
use crate::Args;
use std::io::Write;

/// Normalise an error message so that both Error types (std::io::Error's Display, the no_std
/// Error's Debug) and different address space layouts compare equal.
pub fn norm_err(e: &str) -> String {
    // no_std: Error { kind: Other, error: "..." }
    let body: String = if let Some(i) = e.find("error: \"") {
        let inner = &e[i + 8..];
        let inner = inner.rsplit_once('"').map(|x| x.0).unwrap_or(inner);
        unescape(inner)
    } else {
        e.to_string()
    };
    // mask addresses
    let mut out = String::new();
    let b: Vec<char> = body.chars().collect();
    let mut i = 0;
    while i < b.len() {
        if b[i] == '0' && i + 1 < b.len() && b[i + 1] == 'x' {
            let mut j = i + 2;
            while j < b.len() && b[j].is_ascii_hexdigit() {
                j += 1;
            }
            if j - (i + 2) >= 5 {
                out.push_str("0xADDR");
            } else {
                out.extend(&b[i..j]);
            }
            i = j;
        } else {
            out.push(if b[i] == '\n' { ' ' } else { b[i] });
            i += 1;
        }
    }
    out
}

fn unescape(s: &str) -> String {
    let mut out = String::new();
    let c: Vec<char> = s.chars().collect();
    let mut i = 0;
    while i < c.len() {
        if c[i] == '\\' && i + 1 < c.len() {
            match c[i + 1] {
                'n' => out.push('\n'),
                't' => out.push('\t'),
                'r' => out.push('\r'),
                '\\' => out.push('\\'),
                '"' => out.push('"'),
                '\'' => out.push('\''),
                'u' => {
                    // \u{XXXX}
                    if let Some(end) = c[i..].iter().position(|x| *x == '}') {
                        let hexs: String = c[i + 3..i + end].iter().collect();
                        if let Some(ch) = u32::from_str_radix(&hexs, 16).ok().and_then(char::from_u32) {
                            out.push(ch);
                        }
                        i += end + 1;
                        continue;
                    }
                }
                x => out.push(x),
            }
            i += 2;
        } else {
            out.push(c[i]);
            i += 1;
        }
    }
    out
}

/// Render a value / packet bytes with raw packet addresses masked (they differ between the two
/// processes whose transcripts are compared).
fn mask_val(v: u64, base: u64) -> String {
    if base != 0 && v.wrapping_sub(base.wrapping_sub(0x10000)) <= 0x20000 { format!("PKT{:+}", v.wrapping_sub(base) as i64) } else { format!("{v:#x}") }
}
fn mask_bytes(b: &[u8], mask: &[bool]) -> String {
    let mut out = String::new();
    for (i, x) in b.iter().enumerate() {
        if *mask.get(i).unwrap_or(&true) { out.push_str(&format!("{x:02x}")) } else { out.push_str("??") }
    }
    out
}

pub fn run(a: &Args, rep: &mut Report) {
    let tpath = format!("{}.transcript", a.out);
    let mut f = std::io::BufWriter::new(std::fs::File::create(&tpath).expect("transcript file"));
    let table = asm_table();
    let q = a.tier == "quick";
    let scale = |x: f64| ((x * a.scale) as u64 / a.nshards).max(1);
    let mut line = |rep: &mut Report, cat: &str, id: String, out: String| {
        rep.case(Some(fnv(id.as_bytes())));
        rep.count(&format!("lines_{cat}"));
        let _ = writeln!(f, "{cat}\t{id}\t{out}");
    };

    // assembler
    let mut rng = Rng::derive(a.seed, a.shard, 201);
    for _ in 0..scale(if q { 200_000.0 } else { 10_000_000.0 }) {
        let mut t = crate::mon_text::corpus_text(&mut rng, &table);
        // layout variants a parser may treat differently: an instruction continued on the next line
        // (after the mnemonic or after a comma), CRLF line ends, tabs, no / several trailing newlines
        match rng.below(12) {
            0 => t = t.replacen(", ", ",\n ", 1),
            1 => t = t.replacen(' ', "\n ", 1),
            2 => t = t.replace('\n', "\r\n"),
            3 => t = t.replace(' ', "\t"),
            4 => t.push_str("\n\n"),
            5 => t = t.replacen(", ", " ,\n\t", 1),
            _ => {}
        }
        let r = sys::catch(|| rbpf::assembler::assemble(&t));
        let out = match r {
            Ok(Ok(b)) => format!("Ok({})", hex(&b)),
            Ok(Err(_)) => "Err".to_string(),
            Err(p) => format!("PANIC({})", sys::panic_site(&p)),
        };
        line(rep, "asm", format!("{:?}", t), out);
    }
    // verifier
    let mut rng = Rng::derive(a.seed, a.shard, 202);
    for k in 0..scale(if q { 200_000.0 } else { 10_000_000.0 }) {
        let mut p = if k % 3 == 0 { genp::gen_soup(&mut rng) } else { genp::gen_struct(&mut rng, &genp::StructOpts::default()).0.prog };
        if k % 2 == 1 && !p.is_empty() {
            let i = rng.below(p.len() as u64) as usize;
            p[i] = rng.next() as u8;
        }
        if k % 17 == 0 {
            p.truncate(p.len().saturating_sub(rng.below(9) as usize));
        }
        let r = sys::catch(|| rbpf::EbpfVmRaw::new(Some(&p)).map(|_| ()).map_err(crate::engines::es));
        let out = match r {
            Ok(Ok(())) => "Ok".to_string(),
            Ok(Err(e)) => format!("Err({})", norm_err(&e)),
            Err(pn) => format!("PANIC({})", sys::panic_site(&pn)),
        };
        line(rep, "ver", hex(&p[..p.len().min(400)]), out);
    }
    // disassembler
    let mut rng = Rng::derive(a.seed, a.shard, 203);
    let ops = all_supported_opcodes();
    for _ in 0..scale(if q { 100_000.0 } else { 5_000_000.0 }) {
        let n = rng.range(1, 8);
        let mut v: Vec<Insn> = Vec::new();
        for _ in 0..n {
            let opc = *rng.pick(&ops);
            let mut i = Insn::new(opc, rng.below(16) as u8, rng.below(16) as u8, rng.interesting_i16().0, rng.interesting_i32().0);
            if opc == CALL {
                i.src &= 1;
            }
            v.push(i);
            if opc == LDDW {
                v.push(Insn::new(0, 0, 0, 0, rng.next() as i32));
            }
        }
        let b = encode_prog(&v);
        let r = sys::catch(|| rbpf::disassembler::to_insn_vec(&b));
        let out = match r {
            Ok(es) => es.iter().map(|e| format!("{:#x},{},{},{},{},{},{}", e.opc, e.name, e.desc, e.dst, e.src, e.off, e.imm)).collect::<Vec<_>>().join(";"),
            Err(p) => format!("PANIC({})", sys::panic_site(&p)),
        };
        line(rep, "dis", hex(&b), out);
    }
    // interpreter + JIT on execution cases
    let mut rng = Rng::derive(a.seed, a.shard, 204);
    let n_exec = scale(if q { 40_000.0 } else { 2_000_000.0 });
    let mut batch = Vec::new();
    for k in 0..n_exec {
        let mut c = if k % 2 == 0 {
            { let ix = rng.0 % 100_000; genp::gen_micro(&mut rng, ix).0 }
        } else {
            genp::gen_struct(&mut rng, &genp::StructOpts { allow_helpers: false, ..Default::default() }).0
        };
        // deterministic placement across the two processes is not needed: outcomes that depend on
        // addresses are masked or dropped, but keep the layout simple
        // make some cases fail (out of bounds) to compare error values too
        if k % 11 == 0 && c.prog.len() >= 16 {
            let at = c.prog.len() - 8;
            let ins = Insn::new(LDXDW, 0, 10, 8, 0).bytes();
            c.prog.splice(at..at, ins.iter().copied());
        }
        batch.push(pre_run(c, format!("x{k}"), BUDGET));
        if batch.len() == 256 || k + 1 == n_exec {
            // interpreter lines
            for p in &batch {
                let out = match &p.ir.ran {
                    Ran::Ok(v) => {
                        if matches!(p.rr.outcome, Outcome::Value(_)) { format!("Ok({}) pkt={}", mask_val(*v, p.bufs.pkt_raw().0 as u64), mask_bytes(&p.ir.pkt_after, &p.rr.pkt_mask)) } else { "Ok(out-of-claim)".to_string() }
                    }
                    Ran::Err(e) => format!("Err({})", norm_err(e)),
                    Ran::Panic(m) => format!("PANIC({})", sys::panic_site(m)),
                    Ran::Rejected(e) => format!("REJECTED({})", norm_err(e)),
                };
                line(rep, "int", format!("{}|{}|{}", p.case.kind.name(), hex(&p.case.prog[..p.case.prog.len().min(800)]), hex(&p.case.pkt)), out);
            }
            let elig: Vec<&crate::diff::Pre> = batch.iter().filter(|p| matches!(p.rr.outcome, Outcome::Value(_)) && matches!(p.ir.ran, Ran::Ok(_)) && !p.rr.neg_ldabs).collect();
            let pairs: Vec<_> = elig.iter().map(|p| (&p.case, &p.bufs)).collect();
            let ends = run_compiled(&pairs, Engine::Jit, Family::Plain);
            for (p, e) in elig.iter().zip(ends.iter()) {
                let out = match e {
                    EngineEnd::Rec(r) => match r.status {
                        0 => format!("Ok({}) pkt={}", mask_val(r.value, p.bufs.pkt_raw().0 as u64), mask_bytes(&r.pkt, &p.rr.pkt_mask)),
                        1 => format!("CompileErr({})", norm_err(&r.msg)),
                        2 => format!("CompilePanic({})", sys::panic_site(&r.msg)),
                        s => format!("status{s}({})", norm_err(&r.msg)),
                    },
                    EngineEnd::Signal(s) => format!("SIGNAL({})", sys::signame(*s)),
                    EngineEnd::Diverged => "DIVERGED".to_string(),
                    EngineEnd::Inconclusive(s) => {
                        rep.inconclusive(s.clone());
                        "INCONCLUSIVE".to_string()
                    }
                };
                line(rep, "jit", format!("{}|{}|{}", p.case.kind.name(), hex(&p.case.prog[..p.case.prog.len().min(800)]), hex(&p.case.pkt)), out);
            }
            batch.clear();
        }
    }
    // helper ids nobody registered (and, as a control, one that is registered): the interpreter's
    // Ok/Err and the JIT's compile outcome, on every VM kind. Values are not printed (a helper may
    // legitimately be time- or randomness-dependent); whether the call is known is what is compared.
    if a.shard == 0 {
        let ids: Vec<u32> = (0u32..=40).chain([63, 64, 100, 255, 256, 1000, 65535, 65536, 0x7fff_ffff, 0x8000_0000, u32::MAX]).collect();
        for kind in crate::engines::KINDS {
            for &id in &ids {
                for registered in [false, true] {
                    let prog = encode_prog(&[Insn::new(MOV64_IMM, 1, 0, 0, 1), Insn::new(MOV64_IMM, 2, 0, 0, 2), Insn::new(MOV64_IMM, 3, 0, 0, 3), Insn::new(MOV64_IMM, 4, 0, 0, 4), Insn::new(MOV64_IMM, 5, 0, 0, 5), Insn::new(CALL, 0, 0, 0, id as i32), Insn::new(EXIT, 0, 0, 0, 0)]);
                    let mut pkt = [7u8; 16];
                    let mut mb = [0u8; 16];
                    let r = sys::catch(|| -> Result<String, String> {
                        let mut vm = crate::engines::Vm::new(kind, Some(&prog), (0, 8))?;
                        if registered {
                            vm.register_helper(id, crate::hlp::PLAIN[3])?;
                        }
                        let pk = if kind == crate::engines::Kind::NoData { (std::ptr::null_mut(), 0) } else { (pkt.as_mut_ptr(), pkt.len()) };
                        let mbp = if kind == crate::engines::Kind::Mbuff { (mb.as_mut_ptr(), mb.len()) } else { (std::ptr::null_mut(), 0) };
                        let i = match vm.exec(pk, mbp) {
                            Ok(_) => "Ok",
                            Err(_) => "Err",
                        };
                        #[cfg(not(any(feature = "std", feature = "stdlite")))]
                        {
                            let _ = vm.set_jit_exec_memory(crate::exec::exec_memory(1 << 16));
                        }
                        let j = match vm.jit_compile() {
                            Ok(()) => "Ok",
                            Err(_) => "Err",
                        };
                        Ok(format!("interp={i} jit_compile={j}"))
                    });
                    let out = match r {
                        Ok(Ok(s)) => s,
                        Ok(Err(e)) => format!("REJECTED({})", norm_err(&e)),
                        Err(p) => format!("PANIC({})", sys::panic_site(&p)),
                    };
                    line(rep, "hlp", format!("{}|call {id:#x}|registered={registered}", kind.name()), out);
                }
            }
        }
    }
    // API histories (same operations as C10): the recorded observation sequence of each history
    {
        use crate::mon_c10::{exec_history, mk_pool, Op, Ver};
        let mut rng = Rng::derive(a.seed, a.shard, 205);
        let pool = mk_pool(&mut rng, 0);
        let usable: Vec<usize> = (0..pool.len()).filter(|i| pool[*i].probe.is_none()).collect();
        let nh = scale(if q { 20_000.0 } else { 1_000_000.0 }) as usize;
        let mut hist: Vec<(crate::engines::Kind, Vec<Op>)> = Vec::new();
        for _ in 0..nh {
            let kind = crate::engines::KINDS[rng.below(4) as usize];
            let mut ops = vec![Op::New(if rng.chance(1, 3) { None } else { Some(*rng.pick(&usable)) })];
            for _ in 0..rng.range(1, 14) {
                ops.push(match rng.below(12) {
                    0..=2 => Op::SetProgram(*rng.pick(&usable)),
                    3 => Op::SetVerifier(*rng.pick(&[Ver::Default, Ver::AcceptAll, Ver::RejectAll, Ver::Custom])),
                    4 => Op::RegisterHelper(rng.below(8) as usize),
                    5 => Op::SetCalc,
                    6 | 7 => Op::JitCompile,
                    8 | 9 => Op::Exec,
                    _ => Op::ExecJit,
                });
            }
            // accumulation: one history in 60 goes on with a burst of hundreds of identical calls
            if rng.chance(1, 60) {
                let n = *rng.pick(&[254usize, 255, 256, 257, 300, 511, 512, 513, 1025]);
                let which = rng.below(5);
                if which != 3 {
                    ops.push(Op::JitCompile);
                }
                for k in 0..n {
                    ops.push(match which {
                        0 => Op::ExecJit,
                        1 => Op::Exec,
                        2 => Op::SetProgram(usable[k % 2]),
                        3 => Op::JitCompile,
                        _ => if k % 2 == 0 { Op::RegisterHelper(k % 8) } else { Op::SetCalc },
                    });
                }
                ops.extend([Op::ExecJit, Op::Exec, Op::JitCompile, Op::ExecJit, Op::Exec]);
                rep.count("long_api_histories");
            }
            hist.push((kind, ops));
        }
        let pkt = crate::sys::GuardBuf::new(64, true, false);
        pkt.fill(&[0x42u8; 64]);
        let mbuff = crate::sys::GuardBuf::new(32, true, false);
        let pk = (pkt.addr() as *mut u8, pkt.len());
        let ends = crate::sys::run_batch(hist.len(), 120, 60, |i, out| {
            let (kind, ops) = &hist[i];
            let mb = if *kind == crate::engines::Kind::Mbuff { (mbuff.addr() as *mut u8, mbuff.len()) } else { (std::ptr::null_mut(), 0) };
            exec_history(kind, ops, &pool, pk, mb, out);
        });
        for ((kind, ops), e) in hist.iter().zip(ends.iter()) {
            let out = match e {
                crate::sys::CaseEnd::Done(b) => {
                    // panic messages contain paths: keep only the observation codes and values
                    let mut s = String::new();
                    let mut p = 0;
                    while p < b.len() {
                        match b[p] {
                            2 => {
                                s.push_str(&format!("V{:x} ", u64::from_le_bytes(b[p + 1..p + 9].try_into().unwrap())));
                                p += 9;
                            }
                            3 => {
                                s.push_str("PANIC");
                                break;
                            }
                            5 => {
                                s.push_str("DIFFERS-FROM-FRESH-VM");
                                break;
                            }
                            c => {
                                s.push_str(["Ok ", "Err ", "", "", "- "][c.min(4) as usize]);
                                p += 1;
                            }
                        }
                    }
                    s
                }
                crate::sys::CaseEnd::Died(sig, _) => format!("SIGNAL({})", sys::signame(*sig)),
                crate::sys::CaseEnd::CpuTimeout => "DIVERGED".into(),
                crate::sys::CaseEnd::Inconclusive(x) => {
                    rep.inconclusive(x.clone());
                    "INCONCLUSIVE".into()
                }
            };
            line(rep, "api", format!("{}|{:?}", kind.name(), ops), out);
        }
    }
    let _ = f.flush();
    rep.sample(serde_json::json!({"transcript": tpath}));
}
