//! C13 (assembler encodings), C14 (assembler totality), C15 (disassembler fidelity),
//! C16 (assemble . disassemble), C17 (encode/decode inverse, builders).

use crate::isa::*;
use crate::report::Report;
use crate::sys;
use crate::util::{Rng, fnv, hex};
use crate::Args;
use rbpf::assembler::assemble;
use rbpf::disassembler::to_insn_vec as disasm;
use serde_json::json;

// ------------------------------------------------------------------------------------------------
// spelling of operands

fn spell_int(rng: &mut Rng, v: i128, force_sign: bool) -> String {
    let neg = v < 0;
    let mag = v.unsigned_abs();
    let sign = if neg { "-" } else if force_sign || rng.chance(1, 6) { "+" } else { "" };
    match rng.below(5) {
        0 | 1 => format!("{sign}{mag}"),
        2 => format!("{sign}0x{mag:x}"),
        3 => format!("{sign}0x{mag:X}"),
        _ => {
            // leading zeros
            if rng.chance(1, 2) { format!("{sign}00{mag}") } else { format!("{sign}0x000{mag:x}") }
        }
    }
}

fn spell(rng: &mut Rng, o: &Opnd, jump_off: bool) -> String {
    match o {
        Opnd::Reg(r) => format!("r{r}"),
        Opnd::Int(v) => {
            let force = jump_off && *v >= 0 && rng.chance(1, 2);
            spell_int(rng, *v, force)
        }
        Opnd::Mem(r, off) => {
            if *off == 0 && rng.chance(1, 2) {
                format!("[r{r}]")
            } else {
                let s = spell_int(rng, *off, true);
                format!("[r{r}{s}]")
            }
        }
    }
}

fn pick_reg(rng: &mut Rng) -> i128 {
    match rng.below(60) {
        0 => 16,
        1 => 17,
        2 => *rng.pick(&[31i128, 32, 100, 255, 256, 65536]),
        _ => rng.below(16) as i128,
    }
}
fn pick_off(rng: &mut Rng) -> i128 {
    match rng.below(if rng.0 & 3 == 0 { 12 } else { 40 }) {
        4 if rng.0 & 4 == 0 => 100,
        0 => -32769,
        1 => -32768,
        2 => 32767,
        3 => 32768,
        4 => 65535,
        5 => -1,
        6 => 0,
        7 => 1,
        8 => -32768,
        9 => 32767,
        _ => rng.interesting_i16().0 as i128,
    }
}
fn pick_imm(rng: &mut Rng) -> i128 {
    match rng.below(if rng.0 & 3 == 0 { 14 } else { 50 }) {
        0 => -2147483649,
        1 => -2147483648,
        2 => 2147483647,
        3 => 2147483648,
        4 => 0xffff_ffff,
        5 => 0x1_0000_0000,
        6 => -1,
        7 => 0,
        8 => 1,
        9 => -2147483648,
        10 => 2147483647,
        _ => rng.interesting_i32().0 as i128,
    }
}
fn pick_imm64(rng: &mut Rng) -> i128 {
    match rng.below(20) {
        0 => i64::MAX as i128,
        1 => -(i64::MAX as i128),
        2 => 0x8000_0000,
        3 => 0xffff_ffff,
        4 => 0x1_0000_0000,
        5 => -1,
        6 => (1i128 << 63) - 1,
        7 => 0,
        8 => 1i128 << 63,
        9 => u64::MAX as i128,
        10 => -(1i128 << 63),
        11 => *rng.pick(&[(1i128 << 64), -(1i128 << 63) - 1, (1i128 << 64) + 5, -(1i128 << 64)]),
        12 => rng.interesting_u64().0 as i128,
        _ => rng.interesting_u64().0 as i64 as i128,
    }
}

/// operands of the right shape for `kind`, with values drawn from boundary classes
pub fn gen_ops(rng: &mut Rng, kind: AsmKind) -> Vec<Opnd> {
    use Opnd::*;
    match kind {
        AsmKind::AluBinary => {
            if rng.chance(1, 2) { vec![Reg(pick_reg(rng)), Reg(pick_reg(rng))] } else { vec![Reg(pick_reg(rng)), Int(pick_imm(rng))] }
        }
        AsmKind::AluUnary | AsmKind::Endian(_) => vec![Reg(pick_reg(rng))],
        AsmKind::LoadImm => vec![Reg(pick_reg(rng)), Int(pick_imm64(rng))],
        AsmKind::LoadAbs => vec![Int(pick_imm(rng))],
        AsmKind::LoadInd => vec![Reg(pick_reg(rng)), Int(pick_imm(rng))],
        AsmKind::LoadReg => vec![Reg(pick_reg(rng)), Mem(pick_reg(rng), pick_off(rng))],
        AsmKind::StoreImm => vec![Mem(pick_reg(rng), pick_off(rng)), Int(pick_imm(rng))],
        AsmKind::StoreReg => vec![Mem(pick_reg(rng), pick_off(rng)), Reg(pick_reg(rng))],
        AsmKind::JumpUncond => vec![Int(pick_off(rng))],
        AsmKind::JumpCond => {
            if rng.chance(1, 2) {
                vec![Reg(pick_reg(rng)), Reg(pick_reg(rng)), Int(pick_off(rng))]
            } else {
                vec![Reg(pick_reg(rng)), Int(pick_imm(rng)), Int(pick_off(rng))]
            }
        }
        AsmKind::Call | AsmKind::Callx => vec![Int(pick_imm(rng))],
        AsmKind::NoOperand => vec![],
    }
}

/// a wrong operand list for `kind`
pub fn gen_wrong_ops(rng: &mut Rng) -> Vec<Opnd> {
    use Opnd::*;
    let n = rng.below(5) as usize;
    (0..n)
        .map(|_| match rng.below(3) {
            0 => Reg(rng.below(11) as i128),
            1 => Int(rng.range(-5, 5) as i128),
            _ => Mem(rng.below(11) as i128, rng.range(-8, 8) as i128),
        })
        .collect()
}

pub fn render(rng: &mut Rng, name: &str, ops: &[Opnd], kind: Option<AsmKind>) -> String {
    let mut s = String::from(name);
    for (i, o) in ops.iter().enumerate() {
        s.push_str(if i == 0 { " " } else if rng.chance(1, 5) { "," } else { ", " });
        let is_jump_off = matches!(kind, Some(AsmKind::JumpUncond) | Some(AsmKind::JumpCond)) && i == ops.len() - 1;
        s.push_str(&spell(rng, o, is_jump_off));
    }
    s
}

// ------------------------------------------------------------------------------------------------
// C13

pub fn run_c13(a: &Args, rep: &mut Report) {
    let table = asm_table();
    let mut rng = Rng::derive(a.seed, a.shard, 13);
    let n = ((if a.tier == "quick" { 1_600_000.0 } else { 100_000_000.0 }) * a.scale) as u64 / a.nshards;
    let mut k = 0u64;
    let mut par_texts: Vec<String> = Vec::new();
    while k < n {
        // a small program of 1..6 lines; each line has an expected encoding or is expected to fail
        let lines = if rng.chance(1, 2) { 1 } else { rng.range(2, 6) as usize };
        let mut text = String::new();
        let mut expect: Option<Vec<u8>> = Some(Vec::new());
        let mut desc: Vec<String> = Vec::new();
        for li in 0..lines {
            let (name, kind, _) = if li == 0 { &table[(k as usize) % table.len()] } else { &table[rng.below(table.len() as u64) as usize] };
            let mode = rng.below(40);
            let (line, enc) = if mode == 0 {
                // unknown mnemonic
                let bogus = match rng.below(5) {
                    // the mnemonic without its width / size suffix ("be", "le", "ldx", "st", "ldabs" ...;
                    // where the stem is itself documented - "add", "jeq" - the candidate is dropped below)
                    3 => {
                        let t = name.trim_end_matches(|ch: char| ch.is_ascii_digit());
                        let t = if t.len() == name.len() { t.strip_suffix("dw").or_else(|| t.strip_suffix('b')).or_else(|| t.strip_suffix('h')).or_else(|| t.strip_suffix('w')).unwrap_or(t) } else { t };
                        if t.is_empty() || t.len() == name.len() { format!("{name}_") } else { t.to_string() }
                    }
                    // a numeric suffix that is not a width (also far beyond any integer type)
                    4 => format!("{}{}", name.trim_end_matches(|ch: char| ch.is_ascii_digit()), *rng.pick(&["8", "24", "48", "128", "256", "4294967295", "4294967296", "18446744073709551616", "99999999999999999999999999", "064", "0"])),
                    0 => format!("{}{}", name, *rng.pick(&["x", "q", "128", "8", "64", "32", "16", "b", "h", "w", "dw", "0", "i", "s"])),
                    1 => format!("{}{}", *rng.pick(&["s", "x", "j", "ld", "st", "u", "a"]), name),
                    _ => {
                        // drop or double a character
                        let mut cs: Vec<char> = name.chars().collect();
                        let i = rng.below(cs.len() as u64) as usize;
                        if rng.chance(1, 2) && cs.len() > 1 {
                            cs.remove(i);
                        } else {
                            let c = cs[i];
                            cs.insert(i, c);
                        }
                        cs.into_iter().collect()
                    }
                };
                if table.iter().any(|(n, _, _)| *n == bogus) {
                    continue;
                }
                let ops = gen_ops(&mut rng, *kind);
                (render(&mut rng, &bogus, &ops, None), None)
            } else if mode == 1 {
                let ops = gen_wrong_ops(&mut rng);
                let enc = ref_encode(&table, name, &ops);
                (render(&mut rng, name, &ops, Some(*kind)), enc)
            } else {
                let ops = gen_ops(&mut rng, *kind);
                let enc = ref_encode(&table, name, &ops);
                (render(&mut rng, name, &ops, Some(*kind)), enc)
            };
            rep.set("mnemonics", name.clone());
            rep.set("line_classes", format!("{}:{}", name, if enc.is_some() { "ok" } else { "err" }));
            desc.push(line.clone());
            if !text.is_empty() {
                text.push_str(*rng.pick(&["\n", "\n", "\n    ", " \n", "\n\n", " "]));
            }
            text.push_str(&line);
            match (enc, expect.as_mut()) {
                (Some(insns), Some(e)) => {
                    for i in insns {
                        e.extend_from_slice(&i.bytes());
                    }
                }
                _ => expect = None,
            }
        }
        if rng.chance(1, 8) {
            text = format!("{}{}{}", *rng.pick(&["", " ", "\n", "   \n  "]), text, *rng.pick(&["", "\n", " ", "\n\n"]));
        }
        k += 1;
        rep.case(Some(fnv(text.as_bytes())));
        if par_texts.len() < 6000 && k % 7 == 0 {
            par_texts.push(text.clone());
        }
        let got = sys::catch(|| assemble(&text));
        let bad = match (&expect, &got) {
            (_, Err(p)) => Some(("panic".to_string(), format!("assemble panicked: {p}"))),
            (Some(e), Ok(Ok(b))) if e == b => None,
            (Some(e), Ok(Ok(b))) => Some(("wrong-bytes".into(), format!("expected {} got {}", hex(e), hex(b)))),
            (Some(_), Ok(Err(m))) => Some(("wrongly-rejected".into(), format!("valid text refused: {m}"))),
            (None, Ok(Ok(b))) => Some(("wrongly-accepted".into(), format!("invalid text assembled to {}", hex(b)))),
            (None, Ok(Err(_))) => None,
        };
        match &expect {
            Some(_) => rep.count("expect_ok"),
            None => rep.count("expect_err"),
        }
        if rep.want_sample() && k % 40009 == 3 {
            rep.sample(json!({"text": text, "expected": expect.as_ref().map(|e| hex(e))}));
        }
        if let Some((kind, detail)) = bad {
            // (C13 says invalid text "produces an error": a panic on a wrong operand shape, an unknown
            // mnemonic or an out-of-range operand is reported here as well as by C14)
            // attribute to the single offending line when possible
            let mut culprit = String::from("multi");
            for d in &desc {
                let single = sys::catch(|| assemble(d));
                if let Ok(r) = single {
                    // recompute expectation for the single line
                    if let Some((name, ops)) = parse_line(d) {
                        let e = ref_encode(&table, &name, &ops).map(|v| v.iter().flat_map(|i| i.bytes()).collect::<Vec<u8>>());
                        let ok = match (&e, &r) {
                            (Some(e), Ok(b)) => e == b,
                            (None, Err(_)) => true,
                            _ => false,
                        };
                        if !ok {
                            culprit = format!("{}:{}", name, class_of_ops(&ops));
                            break;
                        }
                    }
                } else {
                    culprit = "panic-line".into();
                }
            }
            rep.violation(&format!("C13:{kind}:{culprit}"), detail, json!({"kind": "asm-case", "text": text}));
        }
    }
    // ---- the same texts assembled by 8 threads at once must give what they gave sequentially ----
    if !cfg!(miri) {
        let (execs, bad) = crate::mon_par::par_same(&par_texts, |t| sys::catch(|| assemble(t)).map_err(|p| sys::panic_site(&p)), if a.tier == "quick" { 2 } else { 6 });
        crate::mon_par::report_par(rep, "C13", "assemble", execs, bad, |i| json!({"text": par_texts[i]}));
    }
    // ---- one caller-owned buffer, refilled: long sources of EQUAL length at the SAME address ----
    // (what a caller reading programs into a reused String does); every text has its own expected
    // bytes, the last one of a group may be invalid
    let groups = ((if a.tier == "quick" { 3_000.0 } else { 100_000.0 }) * a.scale) as u64 / a.nshards + 1;
    let exit_bytes = Insn::new(EXIT, 0, 0, 0, 0).bytes();
    let ja1_bytes = Insn::new(JA, 0, 0, 1, 0).bytes();
    for g in 0..groups {
        let members = 2 + rng.below(3) as usize;
        let mut texts: Vec<(String, Option<Vec<u8>>)> = Vec::new();
        for m in 0..members {
            let lines = rng.range(30, 90) as usize;
            let mut text = String::new();
            let mut bytes: Vec<u8> = Vec::new();
            let mut li = 0;
            while li < lines {
                let (name, kind, _) = &table[rng.below(table.len() as u64) as usize];
                let ops = gen_ops(&mut rng, *kind);
                let Some(enc) = ref_encode(&table, name, &ops) else { continue };
                text.push_str(&render(&mut rng, name, &ops, Some(*kind)));
                text.push('\n');
                for i in enc {
                    bytes.extend_from_slice(&i.bytes());
                }
                li += 1;
            }
            let invalid = m + 1 == members && rng.chance(1, 3);
            if invalid {
                text.push_str("exit r1, r2, r3\n");
            }
            texts.push((text, if invalid { None } else { Some(bytes) }));
        }
        let target = texts.iter().map(|t| t.0.len()).max().unwrap() + 40;
        for (text, bytes) in texts.iter_mut() {
            // pad with "exit\n" (5 bytes) and "ja +1\n" (6 bytes) lines to exactly `target`
            let d = target - text.len();
            let b6 = (0..=d / 6).find(|b| (d - 6 * b) % 5 == 0).unwrap();
            let a5 = (d - 6 * b6) / 5;
            for _ in 0..a5 {
                text.push_str("exit\n");
                if let Some(b) = bytes.as_mut() {
                    b.extend_from_slice(&exit_bytes);
                }
            }
            for _ in 0..b6 {
                text.push_str("ja +1\n");
                if let Some(b) = bytes.as_mut() {
                    b.extend_from_slice(&ja1_bytes);
                }
            }
        }
        let mut buf = String::with_capacity(target);
        for (mi, (text, expect)) in texts.iter().enumerate() {
            buf.clear();
            buf.push_str(text);
            rep.case(Some(fnv(text.as_bytes()) ^ g));
            rep.count("reused_buffer_sources");
            let got = sys::catch(|| assemble(&buf));
            let bad = match (expect, &got) {
                (_, Err(p)) => Some(("panic", format!("assemble panicked: {p}"))),
                (Some(e), Ok(Ok(b))) if e == b => None,
                (Some(_), Ok(Ok(_))) => Some(("wrong-bytes", "bytes differ from the reference encoding of THIS text".to_string())),
                (Some(_), Ok(Err(m))) => Some(("wrongly-rejected", format!("valid text refused: {m}"))),
                (None, Ok(Ok(_))) => Some(("wrongly-accepted", "invalid text assembled".to_string())),
                (None, Ok(Err(_))) => None,
            };
            if let Some((kind, detail)) = bad {
                // does the same text assemble correctly from a fresh String? then the buffer history matters
                let fresh = sys::catch(|| assemble(&text.clone()));
                let fresh_ok = match (expect, &fresh) {
                    (Some(e), Ok(Ok(b))) => e == b,
                    (None, Ok(Err(_))) => true,
                    _ => false,
                };
                rep.violation(&format!("C13:{kind}:reused-buffer:{}", if fresh_ok { "depends-on-earlier-call" } else { "text" }), format!("source #{mi} of {} equal-length sources assembled from one reused buffer: {detail}", texts.len()),
                    json!({"kind": "asm-case", "text": text, "earlier_texts_in_same_buffer": texts[..mi].iter().map(|t| t.0.clone()).collect::<Vec<_>>()}));
            }
        }
    }
    // ---- long sources: line, instruction and slot counts around 2^8, 2^12, 2^16, 125,000 and up to
    // the 1,000,000-instruction limit (every line a documented instruction; expected bytes from the
    // reference encoder; a wide load counts two slots) ----
    if !cfg!(miri) {
        let lens: &[usize] = if a.tier == "quick" { &[127, 128, 255, 256, 257, 300, 4_095, 4_096, 4_097, 32_768, 65_535, 65_536, 65_537, 70_000, 125_000, 125_001, 131_072, 200_000, 500_000, 1_000_000] }
                             else { &[127, 128, 129, 255, 256, 257, 300, 511, 512, 513, 1_000, 4_095, 4_096, 4_097, 10_000, 32_767, 32_768, 32_769, 65_535, 65_536, 65_537, 70_000, 100_000, 125_000, 125_001, 131_071, 131_072, 131_073, 200_000, 262_144, 500_000, 999_999, 1_000_000] };
        for (i, l) in lens.iter().enumerate() {
            for flavour in 0..3usize {
                if (i * 3 + flavour) as u64 % a.nshards != a.shard % a.nshards {
                    continue;
                }
                // flavour 0: mixed instructions, `l` SLOTS; 1: mixed, `l` LINES; 2: wide loads only (l slots)
                let mut text = String::new();
                let mut bytes: Vec<u8> = Vec::with_capacity(l * 8 + 16);
                let (mut lines, mut slots) = (0usize, 0usize);
                loop {
                    let done = match flavour { 1 => lines >= *l, 2 => slots + 2 > *l, _ => slots >= *l };
                    if done {
                        break;
                    }
                    let (name, kind, _) = &table[rng.below(table.len() as u64) as usize];
                    if flavour == 2 && name != "lddw" {
                        continue;
                    }
                    let ops = gen_ops(&mut rng, *kind);
                    let Some(enc) = ref_encode(&table, name, &ops) else { continue };
                    if flavour != 1 && slots + enc.len() > *l {
                        continue; // a wide load would overshoot the slot count: draw again
                    }
                    text.push_str(&render(&mut rng, name, &ops, Some(*kind)));
                    text.push('\n');
                    slots += enc.len();
                    lines += 1;
                    for i in enc {
                        bytes.extend_from_slice(&i.bytes());
                    }
                }
                rep.set("long_sources", format!("{}:{l}", ["slots", "lines", "wide-loads-only"][flavour]));
                rep.count("long_sources_assembled");
                rep.case(Some(fnv(text.as_bytes())));
                let got = sys::catch(|| assemble(&text));
                let bad = match &got {
                    Err(p) => Some(("panic", format!("assemble panicked: {p}"))),
                    Ok(Ok(b)) if *b == bytes => None,
                    Ok(Ok(b)) => {
                        let first = b.chunks(8).zip(bytes.chunks(8)).position(|(x, y)| x != y);
                        Some(("wrong-bytes", format!("{} bytes emitted, {} expected; first differing slot: {:?}", b.len(), bytes.len(), first)))
                    }
                    Ok(Err(m)) => Some(("wrongly-rejected", format!("valid text refused: {m}"))),
                };
                if let Some((kind, detail)) = bad {
                    rep.violation(&format!("C13:{kind}:long-source"), format!("source of {lines} lines / {slots} instruction slots: {detail}"), json!({"kind": "long-asm-case", "lines": lines, "slots": slots, "flavour": flavour, "head": text.chars().take(400).collect::<String>()}));
                }
            }
        }
    }
}

fn class_of_ops(ops: &[Opnd]) -> String {
    ops.iter()
        .map(|o| match o {
            Opnd::Reg(r) => {
                if *r < 16 { "reg".to_string() } else { "reg>=16".to_string() }
            }
            Opnd::Int(v) => {
                if *v < -(1 << 31) {
                    "int<i32min".into()
                } else if *v > u32::MAX as i128 {
                    "int>u32max".into()
                } else if *v > i32::MAX as i128 {
                    "int>i32max".into()
                } else if *v < 0 {
                    "int<0".into()
                } else {
                    "int".into()
                }
            }
            Opnd::Mem(r, o) => format!("mem{}{}", if *r >= 16 { ">=16" } else { "" }, if !(-32768..=32767).contains(o) { ":off-range" } else { "" }),
        })
        .collect::<Vec<_>>()
        .join(",")
}

// ------------------------------------------------------------------------------------------------
// reference parser for one line of assembly in the documented syntax (used on generated lines and
// on disassembler output)

fn parse_int(s: &str) -> Option<i128> {
    let (neg, rest) = if let Some(r) = s.strip_prefix('-') {
        (true, r)
    } else if let Some(r) = s.strip_prefix('+') {
        (false, r)
    } else {
        (false, s)
    };
    if rest.is_empty() {
        return None;
    }
    let v: i128 = if let Some(h) = rest.strip_prefix("0x") {
        if h.is_empty() || h.len() > 30 || !h.chars().all(|c| c.is_ascii_hexdigit()) {
            return None;
        }
        i128::from_str_radix(h, 16).ok()?
    } else {
        if rest.len() > 36 || !rest.chars().all(|c| c.is_ascii_digit()) {
            return None;
        }
        rest.parse().ok()?
    };
    Some(if neg { -v } else { v })
}

fn parse_reg(s: &str) -> Option<i128> {
    let d = s.strip_prefix('r')?;
    if d.is_empty() || d.len() > 30 || !d.chars().all(|c| c.is_ascii_digit()) {
        return None;
    }
    d.parse().ok()
}

pub fn parse_line(line: &str) -> Option<(String, Vec<Opnd>)> {
    let line = line.trim();
    let (name, rest) = match line.find(' ') {
        Some(i) => (&line[..i], line[i + 1..].trim()),
        None => (line, ""),
    };
    if name.is_empty() || !name.chars().all(|c| c.is_ascii_alphanumeric() || c == '_') {
        return None;
    }
    let mut ops = Vec::new();
    if !rest.is_empty() {
        for tok in rest.split(',') {
            let t = tok.trim();
            if let Some(inner) = t.strip_prefix('[').and_then(|x| x.strip_suffix(']')) {
                // rN, rN+off, rN-off
                let pos = inner[1..].find(['+', '-']).map(|i| i + 1);
                match pos {
                    None => ops.push(Opnd::Mem(parse_reg(inner)?, 0)),
                    Some(p) => ops.push(Opnd::Mem(parse_reg(&inner[..p])?, parse_int(&inner[p..])?)),
                }
            } else if t.starts_with('r') {
                ops.push(Opnd::Reg(parse_reg(t)?));
            } else {
                ops.push(Opnd::Int(parse_int(t)?));
            }
        }
    }
    Some((name.to_string(), ops))
}

// ------------------------------------------------------------------------------------------------
// C14: totality

fn digits(rng: &mut Rng, n: usize, hexd: bool) -> String {
    (0..n)
        .map(|i| {
            if hexd {
                *rng.pick(&['0', '1', '7', '8', '9', 'a', 'f', 'F'])
            } else if i == 0 {
                *rng.pick(&['1', '9', '0', '2'])
            } else {
                (b'0' + rng.below(10) as u8) as char
            }
        })
        .collect()
}

pub fn hostile_number(rng: &mut Rng) -> String {
    let sign = *rng.pick(&["", "", "-", "+"]);
    match rng.below(12) {
        0 => format!("{sign}9223372036854775807"),
        1 => format!("{sign}9223372036854775808"),
        2 => format!("{sign}18446744073709551615"),
        3 => format!("{sign}18446744073709551616"),
        4 => format!("{sign}0x7fffffffffffffff"),
        5 => format!("{sign}0x8000000000000000"),
        6 => format!("{sign}0xffffffffffffffff"),
        7 => format!("{sign}0x10000000000000000"),
        8 => {
            let n = rng.range(1, 40) as usize;
            format!("{sign}{}", digits(rng, n, false))
        }
        9 => {
            let n = rng.range(1, 40) as usize;
            format!("{sign}0x{}", digits(rng, n, true))
        }
        10 => format!("{sign}0x"),
        _ => format!("{sign}{}", rng.interesting_u64().0),
    }
}

fn hostile_reg(rng: &mut Rng) -> String {
    match rng.below(6) {
        0 => {
            let n = rng.range(1, 40) as usize;
            format!("r{}", digits(rng, n, false))
        }
        1 => "r".to_string(),
        2 => "r18446744073709551616".to_string(),
        3 => "r9223372036854775808".to_string(),
        4 => "r-1".to_string(),
        _ => format!("r{}", rng.below(20)),
    }
}

pub fn run_c14(a: &Args, rep: &mut Report) {
    let table = asm_table();
    let mut rng = Rng::derive(a.seed, a.shard, 14);
    let n = ((if a.tier == "quick" { 1_600_000.0 } else { 100_000_000.0 }) * a.scale) as u64 / a.nshards;
    let mut par_texts: Vec<String> = Vec::new();
    for k in 0..n {
        let (name, kind, _) = &table[(k as usize + rng.below(5) as usize) % table.len()];
        let mode = rng.below(11);
        let (text, class): (String, &str) = match mode {
            10 => {
                // long identifiers / operands made of multi-byte alphanumerics (1-4 bytes each)
                let alpha = ['a', 'Z', '9', 'é', 'ß', 'λ', 'я', '٣', '日', '字', '𝟘', '𝔸', 'ǅ', 'ⅷ'];
                let n = rng.range(1, 90) as usize;
                let ident: String = (0..n).map(|_| *rng.pick(&alpha)).collect();
                let s = match rng.below(4) {
                    0 => ident,
                    1 => format!("{ident} r1, 2"),
                    2 => format!("add r1, {ident}"),
                    _ => format!("{} {ident}", name),
                };
                (s, "unicode-identifier")
            }
            0..=3 => {
                // valid shape with hostile numerals in some operand positions
                let ops = gen_ops(&mut rng, *kind);
                let mut s = name.clone();
                let hostile_at = rng.below(ops.len().max(1) as u64) as usize;
                for (i, o) in ops.iter().enumerate() {
                    s.push_str(if i == 0 { " " } else { ", " });
                    if i == hostile_at || rng.chance(1, 6) {
                        match o {
                            Opnd::Reg(_) => s.push_str(&if rng.chance(1, 2) { hostile_reg(&mut rng) } else { spell(&mut rng, o, false) }),
                            Opnd::Int(_) => s.push_str(&hostile_number(&mut rng)),
                            Opnd::Mem(r, _) => {
                                let reg = if rng.chance(1, 3) { hostile_reg(&mut rng) } else { format!("r{r}") };
                                let mut num = hostile_number(&mut rng);
                                if !num.starts_with('-') && !num.starts_with('+') {
                                    num.insert(0, '+');
                                }
                                s.push_str(&format!("[{reg}{num}]"));
                            }
                        }
                    } else {
                        s.push_str(&spell(&mut rng, o, false));
                    }
                }
                (s, "hostile-numeral")
            }
            4 => {
                // truncated valid line
                let ops = gen_ops(&mut rng, *kind);
                let s = render(&mut rng, name, &ops, Some(*kind));
                let cut = rng.below(s.len() as u64 + 1) as usize;
                (s.chars().take(cut).collect(), "truncated")
            }
            5 => {
                // token soup
                let toks = ["r1", "r", ",", "[", "]", "+", "-", "0x", "0", "1", " ", "\n", "add", "lddw", "exit", "ja", "[r1+", "r10]", "\t", "0x7fffffff", ", ,", "+-1", "--1", "٣", "é", "\0", "#", ";", "//"];
                let n = rng.range(0, 14);
                ((0..n).map(|_| *rng.pick(&toks)).collect::<String>(), "token-soup")
            }
            6 => {
                // random bytes as (lossy) utf-8
                let n = rng.range(0, 40) as usize;
                (String::from_utf8_lossy(&rng.bytes(n)).to_string(), "random-utf8")
            }
            7 => {
                // single-character mutation of a valid multi-line program
                let mut s = String::new();
                for _ in 0..rng.range(1, 4) {
                    let (name, kind, _) = rng.pick(&table).clone();
                    let ops = gen_ops(&mut rng, kind);
                    s.push_str(&render(&mut rng, &name, &ops, Some(kind)));
                    s.push('\n');
                }
                let mut cs: Vec<char> = s.chars().collect();
                if !cs.is_empty() {
                    let i = rng.below(cs.len() as u64) as usize;
                    match rng.below(3) {
                        0 => cs[i] = *rng.pick(&['0', '9', 'x', 'r', '[', ']', ',', '-', '+', ' ', 'f']),
                        1 => {
                            cs.remove(i);
                        }
                        _ => cs.insert(i, *rng.pick(&['0', '9', 'x', 'r', '[', ']', ',', '-', '+', ' ', 'f'])),
                    }
                }
                (cs.into_iter().collect(), "char-mutation")
            }
            8 => {
                // long inputs (bounded time)
                let reps = *rng.pick(&[100usize, 1000, 5000]);
                let unit = *rng.pick(&["add r1, 1\n", "exit\n", "lddw r1, 0x1122334455667788\n", "r1 ", ", ", "[[[["]);
                (unit.repeat(reps), "long")
            }
            _ => {
                let s = format!("{} {}", name, hostile_number(&mut rng));
                (s, "mnemonic+number")
            }
        };
        rep.set("input_classes", class);
        rep.case(Some(fnv(text.as_bytes())));
        if par_texts.len() < 6000 && k % 5 == 0 && text.len() < 4096 {
            par_texts.push(text.clone());
        }
        let t0 = std::time::Instant::now();
        let r = sys::catch(|| assemble(&text));
        let dt = t0.elapsed();
        rep.max("max_assemble_micros", dt.as_micros() as u64);
        match &r {
            Ok(Ok(_)) => rep.count("returned_ok"),
            Ok(Err(_)) => rep.count("returned_err"),
            Err(_) => rep.count("panicked"),
        }
        if rep.want_sample() && k % 50021 == 11 {
            rep.sample(json!({"text": text.chars().take(120).collect::<String>(), "class": class, "outcome": match &r { Ok(Ok(b)) => format!("Ok({} bytes)", b.len()), Ok(Err(e)) => format!("Err({})", e.chars().take(60).collect::<String>()), Err(p) => format!("PANIC {p}") }}));
        }
        if let Err(p) = r {
            rep.violation(&format!("C14:panic:{}", sys::panic_site(&p)), format!("assemble panicked on {:?}: {p}", text.chars().take(100).collect::<String>()), json!({"kind": "asm-case", "text": text}));
        }
        // time bound: generous and proportional to the input size; a slow run is inconclusive, not a violation
        if dt.as_millis() as usize > 2000 + text.len() {
            rep.inconclusive(format!("assemble took {:?} on a {}-byte input ({class})", dt, text.len()));
        }
    }
    // the same hostile strings on 8 threads at once: still no panic, and the same outcome as alone
    if !cfg!(miri) {
        let (execs, bad) = crate::mon_par::par_same(&par_texts, |t| sys::catch(|| assemble(t)).map_err(|p| sys::panic_site(&p)), if a.tier == "quick" { 2 } else { 6 });
        crate::mon_par::report_par(rep, "C14", "assemble-hostile-strings", execs, bad, |i| json!({"text": par_texts[i]}));
    }
}

// ------------------------------------------------------------------------------------------------
// C15 / C16

fn rand_fields(rng: &mut Rng, opc: u8, canonical: bool, nonneg_imm: bool) -> Vec<Insn> {
    let info = op_info(opc).unwrap();
    let (ud, us, uo, ui) = used_fields(info.shape);
    let reg = |rng: &mut Rng, used: bool| -> u8 {
        if used || !canonical { rng.below(16) as u8 } else { 0 }
    };
    let dst = reg(rng, ud);
    let mut src = reg(rng, us);
    let off = if uo || !canonical { if rng.chance(1, 4) { *rng.pick(&[i16::MIN, i16::MAX, -1, 0, 1]) } else { rng.interesting_i16().0 } } else { 0 };
    let mut imm = if ui || !canonical { rng.interesting_i32().0 } else { 0 };
    if nonneg_imm && imm < 0 {
        imm = imm.wrapping_neg().max(0);
        if imm < 0 {
            imm = i32::MAX;
        }
    }
    match info.shape {
        Shape::Call => {
            src = if rng.chance(1, 2) { 1 } else { 0 };
        }
        Shape::Endian => {
            if canonical || rng.chance(3, 4) {
                imm = *rng.pick(&[16, 32, 64]);
            }
        }
        Shape::Lddw => {
            let hi = rng.interesting_u64().0;
            let lo = if nonneg_imm && canonical { rng.next() as u32 as i32 } else { rng.next() as i32 };
            return vec![Insn::new(opc, dst, if canonical { 0 } else { src }, off, lo), Insn::new(0, 0, 0, 0, (hi >> 32) as u32 as i32 ^ (hi as u32 as i32))];
        }
        _ => {}
    }
    vec![Insn::new(opc, dst, src, off, imm)]
}

/// canonical form: unused fields cleared
fn canon(i: &Insn) -> Insn {
    let Some(info) = op_info(i.opc) else { return *i };
    let (ud, us, uo, ui) = used_fields(info.shape);
    Insn::new(i.opc, if ud { i.dst } else { 0 }, if us { i.src } else { 0 }, if uo { i.off } else { 0 }, if ui { i.imm } else { 0 })
}

fn check_entry(table: &[(String, AsmKind, u8)], ins: &Insn, hi: Option<&Insn>, e: &rbpf::disassembler::HLInsn) -> Option<(String, String)> {
    let info = op_info(ins.opc).unwrap();
    let want_imm: i64 = match hi {
        Some(h) => ((ins.imm as u32 as u64) | ((h.imm as u32 as u64) << 32)) as i64,
        None => ins.imm as i64,
    };
    if e.opc != ins.opc || e.dst != ins.dst || e.src != ins.src || e.off != ins.off {
        return Some(("fields".into(), format!("entry fields opc={:#x} dst={} src={} off={} differ from encoded {:?}", e.opc, e.dst, e.src, e.off, ins)));
    }
    if e.imm != want_imm {
        return Some(("imm".into(), format!("entry imm {:#x} != encoded {:#x}", e.imm, want_imm)));
    }
    let m = mnemonic(ins.opc, ins.src).unwrap();
    let name_ok = if info.shape == Shape::Endian { e.name == m || e.name == format!("{m}{}", ins.imm) } else { e.name == m };
    if !name_ok {
        return Some(("name".into(), format!("name {:?} is not the mnemonic {:?} of opcode {:#x}", e.name, m, ins.opc)));
    }
    // a byte swap with a width other than 16/32/64 has no assembler syntax: only fields are checked
    if info.shape == Shape::Endian && !matches!(ins.imm, 16 | 32 | 64) {
        return None;
    }
    // text: parse with the reference grammar and compare operand by operand
    let Some((tname, ops)) = parse_line(&e.desc) else {
        return Some(("desc-syntax".into(), format!("text {:?} is not in the assembler's syntax", e.desc)));
    };
    let (ud, us, uo, ui) = used_fields(info.shape);
    // expected operand list
    let mut want: Vec<Opnd> = Vec::new();
    let imm_op = |v: i64| Opnd::Int(v as i128);
    match info.shape {
        Shape::AluImm => want = vec![Opnd::Reg(ins.dst as i128), imm_op(want_imm)],
        Shape::AluReg => want = vec![Opnd::Reg(ins.dst as i128), Opnd::Reg(ins.src as i128)],
        Shape::Unary | Shape::Endian => want = vec![Opnd::Reg(ins.dst as i128)],
        Shape::LdAbs => want = vec![imm_op(want_imm)],
        Shape::LdInd => want = vec![Opnd::Reg(ins.src as i128), imm_op(want_imm)],
        Shape::LdReg => want = vec![Opnd::Reg(ins.dst as i128), Opnd::Mem(ins.src as i128, ins.off as i128)],
        Shape::StImm => want = vec![Opnd::Mem(ins.dst as i128, ins.off as i128), imm_op(want_imm)],
        Shape::StReg | Shape::Xadd => want = vec![Opnd::Mem(ins.dst as i128, ins.off as i128), Opnd::Reg(ins.src as i128)],
        Shape::Ja => want = vec![Opnd::Int(ins.off as i128)],
        Shape::JmpImm => want = vec![Opnd::Reg(ins.dst as i128), imm_op(want_imm), Opnd::Int(ins.off as i128)],
        Shape::JmpReg => want = vec![Opnd::Reg(ins.dst as i128), Opnd::Reg(ins.src as i128), Opnd::Int(ins.off as i128)],
        Shape::Call => want = vec![imm_op(want_imm)],
        Shape::TailCall | Shape::Exit => {}
        Shape::Lddw => want = vec![Opnd::Reg(ins.dst as i128), imm_op(want_imm)],
    }
    let _ = (ud, us, uo, ui);
    // mnemonic in the text: must denote the same opcode
    let text_name_ok = match info.shape {
        Shape::Endian => tname == format!("{m}{}", ins.imm),
        Shape::Xadd | Shape::TailCall => tname == m,
        _ => {
            // any assembler alias of the same opcode is fine (e.g. "add" for add64)
            table.iter().any(|(n, k, o)| {
                *n == tname
                    && match k {
                        AsmKind::AluBinary | AsmKind::JumpCond => *o == (ins.opc & !0x08),
                        AsmKind::Callx => ins.opc == CALL && ins.src == 1,
                        AsmKind::Call => ins.opc == CALL && ins.src == 0,
                        _ => *o == ins.opc,
                    }
            })
        }
    };
    if !text_name_ok {
        return Some(("desc-mnemonic".into(), format!("text {:?} names a different instruction than opcode {:#x}", e.desc, ins.opc)));
    }
    if ops.len() != want.len() {
        return Some(("desc-operands".into(), format!("text {:?}: operand count differs from {:?}", e.desc, want)));
    }
    let modulus: i128 = if info.shape == Shape::Lddw { 1i128 << 64 } else { 1i128 << 32 };
    for (g, w) in ops.iter().zip(want.iter()) {
        let same = match (g, w) {
            (Opnd::Reg(a), Opnd::Reg(b)) => a == b,
            (Opnd::Mem(a, ao), Opnd::Mem(b, bo)) => a == b && ao == bo,
            // immediates are printed in two's complement: compare modulo 2^32 (2^64 for lddw);
            // offsets must be exact
            (Opnd::Int(a), Opnd::Int(b)) => a == b || ((a - b).rem_euclid(modulus) == 0 && *b == want_imm as i128),
            _ => false,
        };
        if !same {
            return Some(("desc-operands".into(), format!("text {:?} does not render the operands {:?}", e.desc, want)));
        }
    }
    None
}

fn gen_prog(rng: &mut Rng, ops: &[u8], canonical: bool, nonneg: bool, max_len: usize) -> Vec<Insn> {
    let n = if rng.chance(1, 50) { rng.range(100, max_len as i64) as usize } else { rng.range(1, 12) as usize };
    let mut v = Vec::new();
    while v.len() < n {
        let opc = *rng.pick(ops);
        v.extend(rand_fields(rng, opc, canonical, nonneg));
        // near-duplicates of an earlier instruction (same first slot, or same slot with one field
        // changed): whatever a disassembler or assembler remembers per instruction must be keyed
        // by ALL of it
        if rng.chance(1, 6) && !v.is_empty() {
            let mut k = rng.below(v.len() as u64) as usize;
            if k > 0 && v[k - 1].opc == LDDW && v[k].opc == 0 {
                k -= 1; // never start in the middle of a wide load
            }
            if v[k].opc == LDDW && k + 1 < v.len() {
                // twin of a wide load: identical first slot, another upper half
                let (a, mut b) = (v[k], v[k + 1]);
                b.imm = *rng.pick(&[b.imm ^ i32::MIN, b.imm.wrapping_add(1), 0, -1, i32::MIN, if nonneg { 0x7fff_ffff } else { b.imm ^ 1 }]);
                v.push(a);
                v.push(b);
            } else if v[k].opc != 0 {
                let mut t = v[k];
                let free_imm = !matches!(op_info(t.opc).unwrap().shape, Shape::Endian);
                match if free_imm { rng.below(3) } else { 0 } {
                    0 => {}
                    1 => t.imm = if nonneg { (t.imm ^ 1) & 0x7fff_ffff } else { t.imm ^ i32::MIN },
                    _ => t.off = t.off.wrapping_add(if canonical && !used_fields(op_info(t.opc).unwrap().shape).2 { 0 } else { 1 }),
                }
                let (_, _, _, ui) = used_fields(op_info(t.opc).unwrap().shape);
                if canonical && !ui {
                    t.imm = v[k].imm;
                }
                v.push(t);
            }
        }
    }
    v
}

pub fn run_c15(a: &Args, rep: &mut Report) {
    let table = asm_table();
    let mut rng = Rng::derive(a.seed, a.shard, 15);
    let ops = all_supported_opcodes();
    let n = ((if a.tier == "quick" { 400_000.0 } else { 30_000_000.0 }) * a.scale) as u64 / a.nshards;
    // systematic part: every opcode x register byte x extreme offsets
    let mut progs: Vec<Vec<Insn>> = Vec::new();
    for (oi, opc) in ops.iter().enumerate() {
        if cfg!(miri) {
            break;
        }
        if oi as u64 % a.nshards != a.shard % a.nshards && a.nshards > 1 {
            continue;
        }
        for regs in 0..=255u8 {
            for off in [i16::MIN, -1, 0, i16::MAX] {
                let imm = *rng.pick(&[i32::MIN, -1, 0, 16, i32::MAX]);
                let mut i = Insn::new(*opc, regs & 15, regs >> 4, off, imm);
                if *opc == CALL {
                    i.src &= 1;
                }
                let mut p = vec![i];
                if *opc == LDDW {
                    p.push(Insn::new(0, 0, 0, 0, rng.next() as i32));
                }
                progs.push(p);
            }
        }
    }
    // "programs of any length": a few very long ones (up to the 1,000,000-instruction limit)
    if !cfg!(miri) {
        let lens: &[usize] = if a.tier == "quick" { &[70_000, 130_000, 1_000_000] } else { &[70_000, 125_001, 130_000, 300_000, 600_000, 1_000_000] };
        for (i, l) in lens.iter().enumerate() {
            if i as u64 % a.nshards == a.shard % a.nshards {
                let mut v = Vec::with_capacity(*l + 2);
                while v.len() < *l {
                    let opc = *rng.pick(&ops);
                    v.extend(rand_fields(&mut rng, opc, false, false));
                }
                v.truncate(*l);
                if v.last().map(|i| i.opc) == Some(LDDW) {
                    v.pop();
                }
                rep.set("long_programs", format!("{l}"));
                progs.push(v);
            }
        }
    }
    let total = progs.len() as u64 + n;
    let mut par_progs: Vec<Vec<u8>> = Vec::new();
    for k in 0..total {
        let p = if (k as usize) < progs.len() { progs[k as usize].clone() } else { gen_prog(&mut rng, &ops, false, false, 2000) };
        let bytes = encode_prog(&p);
        rep.case(Some(fnv(&bytes)));
        rep.add("instructions", p.len() as u64);
        if par_progs.len() < 6000 && k % 11 == 0 && bytes.len() <= 8 * 256 {
            par_progs.push(bytes.clone());
        }
        // three programs in eight are handed over at an address that is not 8-byte aligned (a
        // sub-slice starting 1..7 bytes into an allocation): where the bytes live is not an input
        let shift = if k % 8 < 3 { 1 + (k / 8 % 7) as usize } else { 0 };
        let shifted: Vec<u8> = if shift > 0 { let mut v = vec![0xEEu8; shift]; v.extend_from_slice(&bytes); v } else { Vec::new() };
        if shift > 0 {
            rep.count("programs_at_unaligned_addresses");
        }
        let r = sys::catch(|| if shift > 0 { disasm(&shifted[shift..]) } else { disasm(&bytes) });
        let entries = match r {
            Err(pmsg) => {
                let first = mnemonic(p[0].opc, p[0].src).unwrap_or_default();
                rep.violation(&format!("C15:panic:{}", sys::panic_site(&pmsg)), format!("disassembler panicked: {pmsg} (first insn {first})"), json!({"kind": "disasm-case", "prog": hex(&bytes[..bytes.len().min(512)])}));
                continue;
            }
            Ok(e) => e,
        };
        // walk
        let mut pc = 0;
        let mut ei = 0;
        let mut bad: Option<(String, String, Insn)> = None;
        while pc < p.len() {
            let ins = p[pc];
            let hi = if ins.opc == LDDW { p.get(pc + 1) } else { None };
            let Some(e) = entries.get(ei) else {
                bad = Some(("count".into(), format!("only {} entries for a longer program", entries.len()), ins));
                break;
            };
            rep.set("opcodes", format!("{:#04x}", ins.opc));
            if let Some((k, d)) = check_entry(&table, &ins, hi, e) {
                bad = Some((k, d, ins));
                break;
            }
            pc += if hi.is_some() { 2 } else { 1 };
            ei += 1;
        }
        if bad.is_none() && ei != entries.len() {
            bad = Some(("count".into(), format!("{} entries for {} instructions", entries.len(), ei), p[0]));
        }
        if rep.want_sample() && k % 30011 == 5 {
            rep.sample(json!({"prog": hex(&bytes[..bytes.len().min(64)]), "entries": entries.iter().take(4).map(|e| e.desc.clone()).collect::<Vec<_>>()}));
        }
        if let Some((kind, detail, ins)) = bad {
            let m = mnemonic(ins.opc, ins.src).unwrap_or_default();
            rep.violation(&format!("C15:{kind}:{m}"), detail, json!({"kind": "disasm-case", "prog": hex(&bytes[..bytes.len().min(512)])}));
        }
    }
    // the same programs disassembled by 8 threads at once: same entries as alone
    if !cfg!(miri) {
        let f = |b: &Vec<u8>| sys::catch(|| disasm(b).iter().map(|e| (e.opc, e.dst, e.src, e.off, e.imm, e.name.clone(), e.desc.clone())).collect::<Vec<_>>()).map_err(|p| sys::panic_site(&p));
        let (execs, bad) = crate::mon_par::par_same(&par_progs, f, if a.tier == "quick" { 2 } else { 6 });
        crate::mon_par::report_par(rep, "C15", "disassemble", execs, bad, |i| json!({"prog": hex(&par_progs[i])}));
    }
}

pub fn run_c16(a: &Args, rep: &mut Report) {
    let mut rng = Rng::derive(a.seed, a.shard, 16);
    // assembler-expressible opcodes
    let ops: Vec<u8> = all_supported_opcodes().into_iter().filter(|o| !matches!(op_info(*o).unwrap().shape, Shape::Xadd | Shape::TailCall)).collect();
    let n = ((if a.tier == "quick" { 400_000.0 } else { 30_000_000.0 }) * a.scale) as u64 / a.nshards;
    let long_lens: Vec<usize> = if cfg!(miri) {
        vec![]
    } else if a.tier == "quick" {
        vec![100_000, 450_000]
    } else {
        vec![100_000, 250_000, 450_000, 700_000, 1_000_000]
    };
    let my_long: Vec<usize> = long_lens.iter().enumerate().filter(|(i, _)| *i as u64 % a.nshards == a.shard % a.nshards).map(|(_, l)| *l).collect();
    let all_ops = all_supported_opcodes();
    let mut par_progs: Vec<Vec<u8>> = Vec::new();
    for k in 0..n + my_long.len() as u64 {
        let canonical = k % 2 == 0 || k >= n;
        let p = if k >= n {
            let l = my_long[(k - n) as usize];
            rep.set("long_programs", format!("{l}"));
            let mut v = Vec::with_capacity(l + 2);
            while v.len() < l {
                let opc = *rng.pick(&ops);
                v.extend(rand_fields(&mut rng, opc, true, true));
            }
            v
        } else {
            // the second half (arbitrary fields) ranges over ALL supported opcodes, including those the
            // assembler has no mnemonic for: if it accepts the text anyway, the bytes must still be canon(p)
            let mut p = gen_prog(&mut rng, if canonical { &ops } else { &all_ops }, canonical, canonical, 600);
            if !canonical && rng.chance(1, 8) {
                // a call of a kind the crate does not know (src 2..15), in a short program: the
                // disassembler may panic or print something the assembler refuses - but text the
                // assembler turns into a helper call or a local call is a different instruction
                p.truncate(rng.below(4) as usize);
                p.push(Insn::new(CALL, 0, 2 + rng.below(14) as u8, 0, *rng.pick(&[0i32, 1, 5, -1, 0x7fff_ffff, i32::MIN])));
                p.push(Insn::new(EXIT, 0, 0, 0, 0));
                rep.count("arbitrary_with_unknown_call_kind");
            }
            p
        };
        let bytes = encode_prog(&p);
        rep.case(Some(fnv(&bytes)));
        if par_progs.len() < 6000 && k % 9 == 0 && bytes.len() <= 8 * 64 {
            par_progs.push(bytes.clone());
        }
        let r = sys::catch(|| {
            // (one program in four from an unaligned sub-slice)
            let sh = (fnv(&bytes) % 4) as usize;
            let entries = if sh == 0 { disasm(&bytes) } else { let mut v = vec![0xEEu8; sh]; v.extend_from_slice(&bytes); disasm(&v[sh..]) };
            let text = entries.iter().map(|e| e.desc.clone()).collect::<Vec<_>>().join("\n");
            let out = assemble(&text);
            (text, out)
        });
        let (text, out) = match r {
            Err(pmsg) => {
                if canonical {
                    rep.violation(&format!("C16:panic:{}", sys::panic_site(&pmsg)), format!("round trip panicked: {pmsg}"), json!({"kind": "roundtrip-case", "prog": hex(&bytes[..bytes.len().min(512)])}));
                } else {
                    rep.count("panic_outside_canonical_left_to_C14_C15");
                }
                continue;
            }
            Ok(x) => x,
        };
        // expected canonical form
        let mut want: Vec<u8> = Vec::new();
        let mut pc = 0;
        while pc < p.len() {
            let c = canon(&p[pc]);
            want.extend_from_slice(&c.bytes());
            if p[pc].opc == LDDW && pc + 1 < p.len() {
                want.extend_from_slice(&Insn::new(0, 0, 0, 0, p[pc + 1].imm).bytes());
                pc += 1;
            }
            pc += 1;
        }
        rep.set("classes", if canonical { "canonical" } else { "arbitrary" });
        if rep.want_sample() && k % 30011 == 5 {
            rep.sample(json!({"prog": hex(&bytes[..bytes.len().min(64)]), "text": text.chars().take(200).collect::<String>(), "canonical": canonical}));
        }
        let find_culprit = |got: &[u8]| -> String {
            for (i, (g, w)) in got.chunks(8).zip(want.chunks(8)).enumerate() {
                if g != w {
                    let ins = decode(&want[i * 8..i * 8 + 8]);
                    return mnemonic(ins.opc, ins.src).unwrap_or_else(|| "lddw-second-half".into());
                }
            }
            "length".into()
        };
        match out {
            Ok(got) => {
                rep.count(if canonical { "canonical_roundtrips" } else { "arbitrary_accepted" });
                if got != want {
                    let c = find_culprit(&got);
                    rep.violation(
                        &format!("C16:{}:{c}", if canonical { "not-identity" } else { "different-instruction" }),
                        format!("assemble(disassemble(p)) = {} but {} = {}", hex(&got[..got.len().min(64)]), if canonical { "p" } else { "canon(p)" }, hex(&want[..want.len().min(64)])),
                        json!({"kind": "roundtrip-case", "prog": hex(&bytes[..bytes.len().min(512)]), "text": text.chars().take(400).collect::<String>()}),
                    );
                }
            }
            Err(e) => {
                if canonical {
                    // find the offending line
                    let mut c = "?".to_string();
                    for (li, l) in text.lines().enumerate() {
                        if assemble(l).is_err() {
                            c = l.split(' ').next().unwrap_or("?").to_string();
                            let _ = li;
                            break;
                        }
                    }
                    rep.violation(&format!("C16:rejected:{c}"), format!("assembler refused the disassembler's text of a canonical program: {e}"), json!({"kind": "roundtrip-case", "prog": hex(&bytes[..bytes.len().min(512)]), "text": text.chars().take(400).collect::<String>()}));
                } else {
                    rep.count("arbitrary_rejected");
                }
            }
        }
    }
    // the same round trips on 8 threads at once, each with its own program: same text, same bytes
    if !cfg!(miri) {
        let f = |b: &Vec<u8>| {
            sys::catch(|| {
                let text = disasm(b).iter().map(|e| e.desc.clone()).collect::<Vec<_>>().join("\n");
                let out = assemble(&text);
                (text, out)
            })
            .map_err(|p| sys::panic_site(&p))
        };
        let (execs, bad) = crate::mon_par::par_same(&par_progs, f, if a.tier == "quick" { 2 } else { 6 });
        crate::mon_par::report_par(rep, "C16", "disassemble-assemble", execs, bad, |i| json!({"prog": hex(&par_progs[i])}));
    }
}

// ------------------------------------------------------------------------------------------------
// C17

fn rinsn(i: &Insn) -> rbpf::ebpf::Insn {
    rbpf::ebpf::Insn { opc: i.opc, dst: i.dst, src: i.src, off: i.off, imm: i.imm }
}

pub fn run_c17(a: &Args, rep: &mut Report) {
    use rbpf::insn_builder::{Arch, BpfCode, Cond, Endian, Instruction, IntoBytes, MemSize, Source};
    let mut rng = Rng::derive(a.seed, a.shard, 17);
    let q = a.tier == "quick";
    let mut bad = |rep: &mut Report, sig: String, detail: String, w: serde_json::Value| rep.violation(&sig, detail, w);

    // --- encode/decode identity
    let check_insn = |rep: &mut Report, i: Insn, idx: usize, rng: &mut Rng| {
        let ri = rinsn(&i);
        let r = sys::catch(|| {
            let arr = ri.to_array();
            let vec = ri.to_vec();
            // place at instruction index idx of a program
            let mut prog = rng.bytes(idx * 8);
            prog.extend_from_slice(&arr);
            let tail = 8 * rng.below(3) as usize;
            prog.extend_from_slice(&rng.bytes(tail));
            let back = rbpf::ebpf::get_insn(&prog, idx);
            let all = rbpf::ebpf::to_insn_vec(&prog);
            (arr, vec, back, all[idx].clone(), all.len(), prog.len() / 8)
        });
        match r {
            Err(p) => rep.violation(&format!("C17:panic:{}", sys::panic_site(&p)), format!("encode/decode panicked on {i:?}: {p}"), json!({"kind": "insn-case", "insn": format!("{i:?}")})),
            Ok((arr, vec, back, viavec, nall, nslots)) => {
                let mine = i.bytes();
                if arr != mine {
                    rep.violation("C17:to_array-bytes", format!("to_array({i:?}) = {} expected {}", hex(&arr), hex(&mine)), json!({"kind": "insn-case", "insn": format!("{i:?}")}));
                } else if vec != arr.to_vec() {
                    rep.violation("C17:to_vec-differs", format!("to_vec != to_array for {i:?}"), json!({"kind": "insn-case", "insn": format!("{i:?}")}));
                } else if back != ri {
                    rep.violation("C17:get_insn-not-inverse", format!("get_insn(to_array(i)) = {back:?} for i = {i:?} at index {idx}"), json!({"kind": "insn-case", "insn": format!("{i:?}"), "index": idx}));
                } else if viavec != ri || nall != nslots {
                    rep.violation("C17:to_insn_vec-differs", format!("to_insn_vec disagrees with get_insn at index {idx}"), json!({"kind": "insn-case", "insn": format!("{i:?}"), "index": idx}));
                }
            }
        }
    };
    // exhaustive opcode x register byte
    for code in 0..65536u32 {
        if cfg!(miri) && code % 4099 != 0 {
            continue;
        }
        if !cfg!(miri) && code as u64 % a.nshards != a.shard {
            continue;
        }
        let i = Insn::new((code >> 8) as u8, code as u8 & 15, (code as u8) >> 4, rng.next() as i16, rng.next() as i32);
        rep.case(Some(fnv(&i.bytes())));
        check_insn(rep, i, (code % 5) as usize, &mut rng);
    }
    // exhaustive offsets
    for off in 0..65536u32 {
        if cfg!(miri) && off % 4099 != 0 {
            continue;
        }
        if !cfg!(miri) && off as u64 % a.nshards != a.shard {
            continue;
        }
        let i = Insn::new(rng.next() as u8, rng.below(16) as u8, rng.below(16) as u8, off as u16 as i16, rng.next() as i32);
        rep.case(Some(fnv(&i.bytes())));
        check_insn(rep, i, (off % 3) as usize, &mut rng);
    }
    rep.set("exhaustive", "opcode x register byte (65536) and all 65536 offsets, sliced over shards");
    {
        let i = Insn::new(0x7b, 10, 3, -32768, i32::MIN);
        rep.sample(json!({"insn": format!("{i:?}"), "bytes": hex(&i.bytes()), "check": "get_insn(to_array(i)) == i at index 0..4, to_array == to_vec"}));
    }
    // immediates: all 2^32 in the thorough tier (sliced), boundary + random in quick
    if q || cfg!(miri) {
        let n = (2_000_000.0 * a.scale) as u64 / a.nshards;
        for _ in 0..n {
            let i = Insn::new(rng.next() as u8, rng.below(16) as u8, rng.below(16) as u8, rng.next() as i16, rng.interesting_i32().0);
            rep.case(Some(fnv(&i.bytes())));
            check_insn(rep, i, rng.below(4) as usize, &mut rng);
        }
        // bytes -> insn -> bytes
        for _ in 0..n {
            let b = rng.bytes(8);
            let r = sys::catch(|| rbpf::ebpf::get_insn(&b, 0).to_array());
            rep.case(Some(fnv(&b)));
            match r {
                Ok(x) if x.to_vec() == b => {}
                Ok(x) => rep.violation("C17:to_array(get_insn)-not-identity", format!("bytes {} re-encode to {}", hex(&b), hex(&x)), json!({"kind": "bytes-case", "bytes": hex(&b)})),
                Err(p) => rep.violation(&format!("C17:panic:{}", sys::panic_site(&p)), p, json!({"kind": "bytes-case", "bytes": hex(&b)})),
            }
        }
    } else {
        let lo = (1u64 << 32) * a.shard / a.nshards;
        let hi = (1u64 << 32) * (a.shard + 1) / a.nshards;
        let step = if a.scale < 1.0 { (1.0 / a.scale) as u64 } else { 1 };
        let mut bad_seen = 0;
        let mut imm = lo;
        while imm < hi {
            let ri = rbpf::ebpf::Insn { opc: 0xb7, dst: 3, src: 5, off: -7, imm: imm as u32 as i32 };
            let arr = ri.to_array();
            let back = rbpf::ebpf::get_insn(&arr, 0);
            if (back != ri || arr[4..8] != (imm as u32).to_le_bytes()) && bad_seen < 3 {
                bad_seen += 1;
                rep.violation("C17:imm-roundtrip", format!("imm {:#x} does not round-trip", imm), json!({"kind": "insn-case", "imm": imm}));
            }
            imm += step;
        }
        rep.add("evaluations", (hi - lo) / step);
        rep.add("imm_exhaustive_values", (hi - lo) / step);
        rep.set("exhaustive", format!("all 2^32 immediates (step {step}) for fixed other fields, sliced over shards"));
        // make the distinct count reflect the enumeration without storing 2^32 hashes
    }

    // to_insn_vec vs get_insn on long programs (every index)
    if !cfg!(miri) && a.shard % 4 == 0 {
        for len in [8_191usize, 8_193, 20_000, 70_000] {
            let prog = rng.bytes(len * 8);
            rep.case(Some(fnv(&prog[..64]) ^ len as u64));
            let r = sys::catch(|| {
                let all = rbpf::ebpf::to_insn_vec(&prog);
                let mut bad = None;
                if all.len() != len {
                    bad = Some(usize::MAX);
                }
                for (i, ins) in all.iter().enumerate() {
                    if *ins != rbpf::ebpf::get_insn(&prog, i) || ins.to_array()[..] != prog[i * 8..i * 8 + 8] {
                        bad = Some(i);
                        break;
                    }
                }
                bad
            });
            rep.set("long_to_insn_vec", format!("{len}"));
            match r {
                Ok(None) => {}
                Ok(Some(i)) => rep.violation("C17:to_insn_vec-differs:long-program", format!("to_insn_vec of a {len}-instruction program: entry {i} differs from get_insn / the encoded bytes"), json!({"kind": "insn-case", "len": len, "index": i})),
                Err(p) => rep.violation(&format!("C17:panic:{}", sys::panic_site(&p)), p, json!({"kind": "insn-case", "len": len})),
            }
        }
    }

    // --- builders
    let table = asm_table();
    let n_b = ((if q { 200_000.0 } else { 10_000_000.0 }) * a.scale) as u64 / a.nshards;
    let sources = [(Source::Imm, 0u8), (Source::Reg, 8u8)];
    let archs = [(Arch::X64, CLS_ALU64), (Arch::X32, CLS_ALU)];
    let sizes = [(MemSize::Byte, 0x10u8, "b"), (MemSize::HalfWord, 0x08, "h"), (MemSize::Word, 0x00, "w"), (MemSize::DoubleWord, 0x18, "dw")];
    let conds = [
        (Cond::Equals, 1u8),
        (Cond::Greater, 2),
        (Cond::GreaterEquals, 3),
        (Cond::BitAnd, 4),
        (Cond::NotEquals, 5),
        (Cond::GreaterSigned, 6),
        (Cond::GreaterEqualsSigned, 7),
        (Cond::Lower, 10),
        (Cond::LowerEquals, 11),
        (Cond::LowerSigned, 12),
        (Cond::LowerEqualsSigned, 13),
    ];
    for k in 0..n_b {
        let dst = rng.below(16) as u8;
        let src = rng.below(16) as u8;
        let off = rng.interesting_i16().0;
        let imm = rng.interesting_i32().0;
        let built = sys::catch(|| {
        let mut code = if k % 2 == 0 { BpfCode::new() } else { BpfCode::default() };
        let which = (k / 2) % 12;
        // returns (expected opcode, constructor name)
        let (opc, cname): (u8, String) = match which {
            0 => {
                let (s, sb) = sources[rng.below(2) as usize];
                let (ar, ab) = archs[rng.below(2) as usize];
                let op = rng.below(12) as u8; // not neg
                let op = if op >= 8 { op + 1 } else { op };
                let b = match op {
                    0 => code.add(s, ar),
                    1 => code.sub(s, ar),
                    2 => code.mul(s, ar),
                    3 => code.div(s, ar),
                    4 => code.bit_or(s, ar),
                    5 => code.bit_and(s, ar),
                    6 => code.left_shift(s, ar),
                    7 => code.right_shift(s, ar),
                    9 => code.modulo(s, ar),
                    10 => code.bit_xor(s, ar),
                    11 => code.mov(s, ar),
                    _ => code.signed_right_shift(s, ar),
                };
                b.set_dst(dst).set_src(src).set_off(off).set_imm(imm).push();
                ((op << 4) | sb | ab, format!("alu:{}", ALU_NAMES[op as usize]))
            }
            1 => {
                let (ar, ab) = archs[rng.below(2) as usize];
                code.negate(ar).set_dst(dst).set_src(src).set_off(off).set_imm(imm).push();
                (0x80 | ab, "negate".into())
            }
            2 => {
                let (e, eb) = if rng.chance(1, 2) { (Endian::Little, LE) } else { (Endian::Big, BE) };
                code.swap_bytes(e).set_dst(dst).set_src(src).set_off(off).set_imm(imm).push();
                (eb, "swap_bytes".into())
            }
            3 => {
                code.load(MemSize::DoubleWord).set_dst(dst).set_src(src).set_off(off).set_imm(imm).push();
                (LDDW, "load(dw)".into())
            }
            4 => {
                let (m, mb, _) = sizes[rng.below(4) as usize];
                code.load_abs(m).set_dst(dst).set_src(src).set_off(off).set_imm(imm).push();
                (0x20 | mb, "load_abs".into())
            }
            5 => {
                let (m, mb, _) = sizes[rng.below(4) as usize];
                code.load_ind(m).set_dst(dst).set_src(src).set_off(off).set_imm(imm).push();
                (0x40 | mb, "load_ind".into())
            }
            6 => {
                let (m, mb, _) = sizes[rng.below(4) as usize];
                code.load_x(m).set_dst(dst).set_src(src).set_off(off).set_imm(imm).push();
                (0x61 | mb, "load_x".into())
            }
            7 => {
                let (m, mb, _) = sizes[rng.below(4) as usize];
                code.store(m).set_dst(dst).set_src(src).set_off(off).set_imm(imm).push();
                (0x62 | mb, "store".into())
            }
            8 => {
                let (m, mb, _) = sizes[rng.below(4) as usize];
                code.store_x(m).set_dst(dst).set_src(src).set_off(off).set_imm(imm).push();
                (0x63 | mb, "store_x".into())
            }
            9 => {
                code.jump_unconditional().set_dst(dst).set_src(src).set_off(off).set_imm(imm).push();
                (JA, "jump_unconditional".into())
            }
            10 => {
                let (c, cb) = conds[rng.below(conds.len() as u64) as usize];
                let (s, sb) = sources[rng.below(2) as usize];
                code.jump_conditional(c, s).set_dst(dst).set_src(src).set_off(off).set_imm(imm).push();
                ((cb << 4) | sb | CLS_JMP, format!("jump_conditional:{}", JMP_NAMES[cb as usize]))
            }
            _ => {
                if rng.chance(1, 2) {
                    code.call().set_dst(dst).set_src(src).set_off(off).set_imm(imm).push();
                    (CALL, "call".into())
                } else {
                    code.exit().set_dst(dst).set_src(src).set_off(off).set_imm(imm).push();
                    (EXIT, "exit".into())
                }
            }
        };
        (opc, cname, code.into_bytes().to_vec())
        });
        let (opc, cname, got) = match built {
            Ok(x) => x,
            Err(p) => {
                rep.violation(&format!("C17:builder-panic:{}", sys::panic_site(&p)), format!("the instruction builder panicked (constructor #{}, builder from {}): {p}", (k / 2) % 12, if k % 2 == 0 { "new()" } else { "default()" }), json!({"kind": "builder-case", "constructor_index": (k / 2) % 12, "default": k % 2 == 1}));
                continue;
            }
        };
        let i = Insn::new(opc, dst, src, off, imm);
        let enc = rinsn(&i).to_array().to_vec();
        rep.case(Some(fnv(&got) ^ k));
        rep.set("builder_constructors", cname.clone());
        if rep.want_sample() && k % 7919 == 1 {
            rep.sample(json!({"builder": cname, "fields": format!("{i:?}"), "bytes": hex(&got)}));
        }
        if got != i.bytes().to_vec() || got != enc {
            bad(rep, format!("C17:builder-bytes:{cname}"), format!("builder emitted {} ; Insn{{..}}.to_array() = {} ; expected {}", hex(&got), hex(&enc), hex(&i.bytes())), json!({"kind": "builder-case", "constructor": cname, "insn": format!("{i:?}")}));
            continue;
        }
        // agreement with the assembler where a mnemonic exists and the operands are expressible
        if let Some(info) = op_info(opc) {
            let c = canon(&i);
            if c == i && !matches!(info.shape, Shape::Xadd | Shape::TailCall | Shape::Lddw) && (info.shape != Shape::Endian || matches!(imm, 16 | 32 | 64)) {
                // render canonical text ourselves
                let m = mnemonic(opc, src).unwrap();
                let m = if info.shape == Shape::Endian { format!("{m}{imm}") } else { m };
                let ops: Vec<Opnd> = match info.shape {
                    Shape::AluImm => vec![Opnd::Reg(dst as i128), Opnd::Int(imm as i128)],
                    Shape::AluReg => vec![Opnd::Reg(dst as i128), Opnd::Reg(src as i128)],
                    Shape::Unary | Shape::Endian => vec![Opnd::Reg(dst as i128)],
                    Shape::LdAbs => vec![Opnd::Int(imm as i128)],
                    Shape::LdInd => vec![Opnd::Reg(src as i128), Opnd::Int(imm as i128)],
                    Shape::LdReg => vec![Opnd::Reg(dst as i128), Opnd::Mem(src as i128, off as i128)],
                    Shape::StImm => vec![Opnd::Mem(dst as i128, off as i128), Opnd::Int(imm as i128)],
                    Shape::StReg => vec![Opnd::Mem(dst as i128, off as i128), Opnd::Reg(src as i128)],
                    Shape::Ja => vec![Opnd::Int(off as i128)],
                    Shape::JmpImm => vec![Opnd::Reg(dst as i128), Opnd::Int(imm as i128), Opnd::Int(off as i128)],
                    Shape::JmpReg => vec![Opnd::Reg(dst as i128), Opnd::Reg(src as i128), Opnd::Int(off as i128)],
                    Shape::Call => vec![Opnd::Int(imm as i128)],
                    _ => vec![],
                };
                if ref_encode(&table, &m, &ops).is_some() && (info.shape != Shape::Call || src <= 1) {
                    let text = render(&mut rng, &m, &ops, None);
                    if let Ok(Ok(ab)) = sys::catch(|| assemble(&text)) {
                        rep.count("builder_vs_assembler_compared");
                        if ab != got {
                            bad(rep, format!("C17:builder-vs-assembler:{cname}"), format!("builder {} vs assemble({text:?}) {}", hex(&got), hex(&ab)), json!({"kind": "builder-case", "constructor": cname, "text": text}));
                        }
                    }
                }
            }
        }
    }
    // ---- many pushes on ONE builder object: the emitted program must be the concatenation of the
    // instructions' encodings, whatever the count (inline buffers, growth thresholds, counters) ----
    if !cfg!(miri) {
        let lens: &[usize] = if a.tier == "quick" { &[2, 6, 31, 32, 33, 127, 128, 255, 256, 257, 300, 511, 512, 513, 1000, 4096, 4097, 65_536, 65_537, 70_000] } else { &[2, 3, 6, 15, 16, 17, 31, 32, 33, 63, 64, 65, 127, 128, 129, 255, 256, 257, 300, 511, 512, 513, 1000, 1023, 1024, 1025, 4095, 4096, 4097, 32_768, 65_535, 65_536, 65_537, 70_000, 262_145, 1_000_000] };
        for (li, n) in lens.iter().enumerate() {
            if li as u64 % a.nshards != a.shard % a.nshards {
                continue;
            }
            for from_default in [false, true] {
                let mut want: Vec<u8> = Vec::with_capacity(n * 8);
                let fields: Vec<(u8, u8, i16, i32, u8)> = (0..*n).map(|_| (rng.below(16) as u8, rng.below(16) as u8, rng.interesting_i16().0, rng.interesting_i32().0, rng.below(7) as u8)).collect();
                let built = sys::catch(|| {
                    let mut code = if from_default { BpfCode::default() } else { BpfCode::new() };
                    for (dst, src, off, imm, which) in &fields {
                        let (dst, src, off, imm) = (*dst, *src, *off, *imm);
                        match which {
                            0 => { code.add(Source::Imm, Arch::X64).set_dst(dst).set_src(src).set_off(off).set_imm(imm).push(); }
                            1 => { code.mov(Source::Reg, Arch::X32).set_dst(dst).set_src(src).set_off(off).set_imm(imm).push(); }
                            2 => { code.load_x(MemSize::Word).set_dst(dst).set_src(src).set_off(off).set_imm(imm).push(); }
                            3 => { code.store(MemSize::Byte).set_dst(dst).set_src(src).set_off(off).set_imm(imm).push(); }
                            4 => { code.jump_conditional(Cond::Equals, Source::Imm).set_dst(dst).set_src(src).set_off(off).set_imm(imm).push(); }
                            5 => { code.jump_unconditional().set_dst(dst).set_src(src).set_off(off).set_imm(imm).push(); }
                            _ => { code.exit().set_dst(dst).set_src(src).set_off(off).set_imm(imm).push(); }
                        }
                    }
                    code.into_bytes().to_vec()
                });
                for (dst, src, off, imm, which) in &fields {
                    let opc = match which { 0 => 0x07u8, 1 => 0xbc, 2 => 0x61, 3 => 0x72, 4 => 0x15, 5 => JA, _ => EXIT };
                    want.extend_from_slice(&Insn::new(opc, *dst, *src, *off, *imm).bytes());
                }
                rep.case(Some(fnv(&want) ^ *n as u64));
                rep.set("builder_program_lengths", format!("{n}"));
                rep.count("builder_programs_of_many_pushes");
                match built {
                    Err(p) => rep.violation(&format!("C17:builder-panic:many-pushes:{}", sys::panic_site(&p)), format!("the instruction builder panicked while {n} instructions were pushed on one BpfCode: {p}"), json!({"kind": "builder-program", "pushes": n, "default": from_default})),
                    Ok(got) if got != want => {
                        let first = got.chunks(8).zip(want.chunks(8)).position(|(x, y)| x != y);
                        rep.violation("C17:builder-bytes:many-pushes", format!("{n} pushes on one BpfCode: {} bytes emitted, {} expected; first differing slot {:?}", got.len(), want.len(), first), json!({"kind": "builder-program", "pushes": n, "default": from_default}));
                    }
                    Ok(_) => {}
                }
            }
        }
    }
}

/// A text for the std/no_std transcript corpus: valid lines, boundary operands, hostile numerals.
pub fn corpus_text(rng: &mut Rng, table: &[(String, AsmKind, u8)]) -> String {
    let mut s = String::new();
    for li in 0..rng.range(1, 4) {
        let (name, kind, _) = &table[rng.below(table.len() as u64) as usize];
        if li > 0 {
            s.push('\n');
        }
        match rng.below(10) {
            0 => {
                s.push_str(&format!("{} {}", name, hostile_number(rng)));
            }
            1 => {
                let ops = gen_wrong_ops(rng);
                s.push_str(&render(rng, name, &ops, Some(*kind)));
            }
            2 => {
                let ops = gen_ops(rng, *kind);
                let l = render(rng, name, &ops, Some(*kind));
                let cut = rng.below(l.len() as u64 + 1) as usize;
                s.push_str(&l.chars().take(cut).collect::<String>());
            }
            3 => s.push_str(&format!("{}q r1, 2", name)),
            4 if li > 0 => {
                // a stray line between instructions: comment-like text or a lone symbol
                s.push_str(*rng.pick(&["# comment", "^", "; x", "// y", ".", "@", "!", "#"]));
            }
            _ => {
                let ops = gen_ops(rng, *kind);
                s.push_str(&render(rng, name, &ops, Some(*kind)));
            }
        }
    }
    s
}
