//! Execution monitors C01 / C03 / C04: workload mix and tiers.

use crate::diff::*;
use crate::engines::Engine;
use crate::exec::Family;
use crate::genp::*;
use crate::report::Report;
use crate::util::Rng;
use crate::Args;

pub struct Mix {
    pub micro: u64,
    pub structured: u64,
    pub long_lens: Vec<usize>,
}

fn mix_for(prop: &str, a: &Args) -> Mix {
    let q = a.tier == "quick";
    let scale = a.scale;
    let m = |x: u64| ((x as f64 * scale) as u64 / a.nshards).max(1);
    match prop {
        "C01" => Mix {
            micro: m(if q { 480_000 } else { 24_000_000 }),
            structured: m(if q { 64_000 } else { 3_200_000 }),
            long_lens: if q { vec![300, 700, 1_100, 2_100, 4_200, 9_000, 33_000, 66_000, 131_100] } else { vec![300, 500, 700, 1_100, 1_600, 2_100, 3_000, 4_200, 6_000, 9_000, 17_000, 33_000, 40_000, 66_000, 70_000, 131_100, 500_000, 1_000_000] },
        },
        "C03" => Mix {
            micro: m(if q { 320_000 } else { 12_000_000 }),
            structured: m(if q { 48_000 } else { 1_600_000 }),
            long_lens: if q { vec![300, 700, 1_100, 2_100, 4_200, 9_000, 33_000, 66_000] } else { vec![300, 500, 700, 1_100, 1_600, 2_100, 3_000, 4_200, 6_000, 9_000, 17_000, 33_000, 66_000, 70_000, 131_100, 500_000, 1_000_000] },
        },
        _ => Mix {
            micro: m(if q { 96_000 } else { 3_000_000 }),
            structured: m(if q { 12_000 } else { 320_000 }),
            long_lens: if q { vec![300, 700, 1_100, 2_100, 4_200, 9_000, 33_000, 66_000, 70_100] } else { vec![300, 500, 700, 1_100, 1_600, 2_100, 3_000, 4_200, 6_000, 9_000, 17_000, 33_000, 66_000, 70_000, 79_000] },
        },
    }
}

pub fn run(prop: &str, a: &Args, rep: &mut Report) {
    let mix = mix_for(prop, a);
    let engine = match prop {
        "C03" => Some(Engine::Jit),
        "C04" => Some(Engine::Cranelift),
        _ => None,
    };
    // buffers beyond 4 GiB: in-bounds loads, stores and atomic adds at offsets around 2^16, 2^31,
    // 2^32 and the end of the buffer, JIT-compiled (mon_c02.rs; the interpreter and Cranelift
    // run the same probes, refused accesses included, under C02 and C11)
    #[cfg(all(not(miri), any(feature = "std", feature = "stdlite")))]
    if prop == "C03" {
        crate::mon_c02::huge_probes(a, rep, Engine::Jit);
    }
    let batch_n = 512usize;
    // every fourth full batch is also run by 8 threads at once, each on its own VMs (mon_par.rs)
    let batches = std::cell::Cell::new(0u32);
    let par_sessions = std::cell::Cell::new(0u32);
    let max_par = (if a.tier == "quick" { 3 } else { 40 }) * crate::mon_par::par_mult().max(1) as u32;
    let handle = |rep: &mut Report, batch: Vec<Pre>| {
        batches.set(batches.get() + 1);
        if batches.get() % 4 == 1 && batch.len() >= 128 && par_sessions.get() < max_par {
            par_sessions.set(par_sessions.get() + 1);
            crate::mon_par::exec_par(rep, prop, &batch, engine.unwrap_or(Engine::Interp));
        }
        match engine {
            None => check_c01(rep, &batch),
            Some(e) => check_compiled(rep, prop, &batch, e, if e == Engine::Jit { Family::Hostile } else { Family::Gentle }),
        }
    };

    // ---- micro ----
    let mut rng = Rng::derive(a.seed, a.shard, 1);
    let mut batch: Vec<Pre> = Vec::new();
    // rotate the starting index per shard so that shards cover different (opcode, pair) cells
    // the union over shards is a consecutive index range, so that every (opcode, dst, src) cell
    // (121 x 110 cells) is visited range/13310 times; the seed only moves the starting point
    let base = a.seed.wrapping_mul(104729) % 13310;
    for k in 0..mix.micro {
        let idx = base + k * a.nshards + a.shard;
        let (c, info) = gen_micro(&mut rng, idx);
        rep.set("micro_triples", format!("{:#04x}:{}:{}", info.opc, info.dst, info.src));
        rep.set("micro_operand_classes", format!("{:#04x}:{}:{}", info.opc, info.cls_a, info.cls_b));
        rep.set("micro_templates", info.template);
        let tag = format!("micro#{idx}");
        // one case in eight also in another placement (program bytes at an unaligned address,
        // packet at the other end of its mapping, metadata buffer and packet in the other order)
        if k % 8 == 3 {
            rep.count("placement_variants");
            batch.push(pre_run(c.with_placement(k as u8), format!("{tag}+placed"), BUDGET));
        }
        batch.push(pre_run(c, tag, BUDGET));
        if batch.len() >= batch_n {
            handle(rep, std::mem::take(&mut batch));
        }
    }
    handle(rep, std::mem::take(&mut batch));

    // ---- structured ----
    let mut rng = Rng::derive(a.seed, a.shard, 2);
    for k in 0..mix.structured {
        let calc = match rng.below(8) {
            0 => CalcSpec::Const(*rng.pick(&[0u16, 8, 64, 128, 256, 512, 12, 20, 100, 127, 255])),
            1 => CalcSpec::Table(rng.below(16) as u16),
            _ => CalcSpec::None,
        };
        let opts = StructOpts {
            allow_local_calls: engine != Some(Engine::Cranelift) && rng.chance(1, 2),
            allow_helpers: rng.chance(2, 3),
            allow_mem: rng.chance(5, 6),
            max_body: *rng.pick(&[6usize, 12, 24, 40]),
            callee_stack: rng.chance(1, 2),
            calc,
        };
        let (c, feats) = gen_struct(&mut rng, &opts);
        for f in feats {
            rep.set("struct_features", f);
        }
        if k % 4 == 1 {
            rep.count("placement_variants");
            batch.push(pre_run(c.with_placement(k as u8), format!("struct#{}.{k}+placed", a.shard), BUDGET));
        }
        batch.push(pre_run(c, format!("struct#{}.{k}", a.shard), BUDGET));
        if batch.len() >= batch_n {
            handle(rep, std::mem::take(&mut batch));
        }
    }
    handle(rep, std::mem::take(&mut batch));

    // ---- fusion bait: idiom pairs with loop back edges and forward jumps landing between them ----
    let mut rng = Rng::derive(a.seed, a.shard, 7);
    for k in 0..mix.structured / 2 {
        let c = gen_fusion(&mut rng);
        rep.count("fusion_programs");
        batch.push(pre_run(c, format!("fusion#{}.{k}", a.shard), BUDGET));
        if batch.len() >= batch_n {
            handle(rep, std::mem::take(&mut batch));
        }
    }
    handle(rep, std::mem::take(&mut batch));

    // ---- one instruction repeated 126 ... 70,001 times in a row ----
    let mut rng = Rng::derive(a.seed, a.shard, 8);
    for k in 0..(mix.structured / 16).max(4) {
        if cfg!(miri) {
            break;
        }
        let c = gen_repeat(&mut rng);
        rep.count("repeat_programs");
        rep.set("repeat_lengths", format!("{}", (c.prog.len() / 8).saturating_sub(29)));
        batch.push(pre_run(c, format!("repeat#{}.{k}", a.shard), BUDGET));
        if batch.len() >= batch_n {
            handle(rep, std::mem::take(&mut batch));
        }
    }
    handle(rep, std::mem::take(&mut batch));

    // ---- C04, second clause: programs with eBPF-to-eBPF calls must be refused by Cranelift ----
    #[cfg(feature = "std")]
    if prop == "C04" {
        refusal_clause(a, rep);
    }

    // ---- long ----
    let mut rng = Rng::derive(a.seed, a.shard, 3);
    let mut li = 0u64;
    let mut par_long: Vec<Pre> = Vec::new();
    for (i, n) in mix.long_lens.iter().enumerate() {
        if a.variant == "par" && *n > 8_400 {
            continue; // the dedicated concurrent pass keeps its sequential part short
        }
        if cfg!(miri) || (a.variant == "valgrind" && *n > 40_000) {
            break; // far too slow under Miri; under valgrind only the shorter long programs are run
        }
        for variant in 0..6u64 {
            // spread (length, variant) cells over shards
            li += 1;
            if li % a.nshards != a.shard % a.nshards {
                continue;
            }
            // medium sizes: several random lengths per cell (size/position thresholds in the
            // hundreds or thousands); large sizes: one or two
            let reps = if *n < 10_000 { 8 } else { 1 };
            for _ in 0..reps {
                let n = if *n < 10_000 { n + rng.below(*n as u64) as usize } else if rng.chance(1, 2) { *n } else { n + rng.below(64) as usize };
                let n = n.min(1_000_000);
                if engine == Some(Engine::Cranelift) && n > 80_000 {
                    continue;
                }
                let c = gen_long(&mut rng, n, variant);
                rep.set("long_cells", format!("{}:{}", mix.long_lens[i], c.class));
                if n <= 8_400 && par_long.len() < 24 {
                    par_long.push(pre_run(c.clone(), format!("long#{n}.{variant}"), 4_000_000));
                }
                batch.push(pre_run(c, format!("long#{n}.{variant}"), 4_000_000));
                handle(rep, std::mem::take(&mut batch));
            }
        }
    }
    // both extreme jump displacements taken (+32767 and -32768), on every engine
    if a.shard == 0 && !cfg!(miri) && a.variant != "valgrind" {
        batch.push(pre_run(crate::genp::gen_extreme_jumps(), "long#extreme-jumps".into(), 4_000_000));
        rep.set("long_cells", "extreme-jumps");
        handle(rep, std::mem::take(&mut batch));
    }
    // programs of mixed sizes whose native code spans one to many pages, built, compiled, run and
    // dropped by 8 threads at once
    if !par_long.is_empty() {
        crate::mon_par::exec_par(rep, prop, &par_long, engine.unwrap_or(Engine::Interp));
        if engine == Some(Engine::Jit) {
            crate::mon_par::exec_par_full(rep, prop, &par_long, Engine::Jit, 1, 40);
        }
    }
}


/// Programs containing a local call at various positions/displacements, with a counting helper
/// registered under the displacement value (and under other ids): cranelift_compile must return
/// Err; if it returns Ok, the program is executed and the helper log is the witness.
#[cfg(feature = "std")]
fn refusal_clause(a: &Args, rep: &mut Report) {
    use crate::engines::{Kind, Vm};
    use crate::isa::*;
    use crate::sys::{self, CaseEnd};
    use serde_json::json;
    let mut rng = Rng::derive(a.seed, a.shard, 41);
    let n = (((if a.tier == "quick" { 24_000.0 } else { 800_000.0 }) * a.scale) as u64 / a.nshards).max(16);
    struct RC {
        prog: Vec<u8>,
        helper_ids: Vec<u32>,
        disp: i32,
    }
    let mut cases: Vec<RC> = Vec::new();
    for k in 0..n {
        // [pre fillers] callx +d [mid fillers] exit ; callee at call+1+d: mov r0, 7; exit  (d may be negative)
        let pre = rng.range(0, 6) as usize;
        let mid = rng.range(0, 6) as usize;
        let backward = k % 3 == 0;
        let mut v: Vec<Insn> = Vec::new();
        let callee_first = backward;
        let mut callee_pc = 0usize;
        if callee_first {
            v.push(Insn::new(JA, 0, 0, 2, 0)); // jump over the callee
            callee_pc = v.len();
            v.push(Insn::new(MOV64_IMM, 0, 0, 0, 7));
            v.push(Insn::new(EXIT, 0, 0, 0, 0));
        }
        for _ in 0..pre {
            v.push(Insn::new(MOV64_IMM, rng.below(6) as u8, 0, 0, rng.range(0, 9) as i32));
        }
        let call_pc = v.len();
        v.push(Insn::new(CALL, 0, 1, 0, 0)); // patched below
        for _ in 0..mid {
            v.push(Insn::new(ADD64_IMM, 0, 0, 0, 1));
        }
        v.push(Insn::new(EXIT, 0, 0, 0, 0));
        if !callee_first {
            callee_pc = v.len();
            v.push(Insn::new(MOV64_IMM, 0, 0, 0, 7));
            v.push(Insn::new(EXIT, 0, 0, 0, 0));
        }
        let d = callee_pc as i64 - (call_pc as i64 + 1);
        v[call_pc].imm = d as i32;
        // dead or live: sometimes the call sits in dead code
        let mut helper_ids = vec![d as i32 as u32];
        if rng.chance(1, 2) {
            helper_ids.push(rng.below(8) as u32);
        }
        if rng.chance(1, 4) {
            helper_ids.clear(); // nothing registered under the displacement
        }
        cases.push(RC { prog: encode_prog(&v), helper_ids, disp: d as i32 });
    }
    let ends = sys::run_batch(cases.len(), 120, 60, |i, out| {
        let c = &cases[i];
        crate::hlp::log_reset();
        let r = sys::catch(|| -> Result<Option<u64>, String> {
            let mut vm = Vm::new(Kind::NoData, Some(&c.prog), (0, 8))?;
            for (j, id) in c.helper_ids.iter().enumerate() {
                vm.register_helper(*id, crate::hlp::PLAIN[j % 8])?;
            }
            match vm.cl_compile() {
                Err(_) => Ok(None),
                Ok(()) => Ok(Some(vm.exec_cl((std::ptr::null_mut(), 0), (std::ptr::null_mut(), 0))?)),
            }
        });
        match r {
            Ok(Ok(None)) => out.push(0),
            Ok(Ok(Some(v))) => {
                out.push(1);
                out.extend_from_slice(&v.to_le_bytes());
                out.extend_from_slice(&(crate::hlp::log_total() as u64).to_le_bytes());
            }
            Ok(Err(_)) => out.push(2),
            Err(_) => out.push(3),
        }
    });
    for (c, e) in cases.iter().zip(ends.iter()) {
        rep.case(Some(crate::util::fnv(&c.prog) ^ c.helper_ids.len() as u64));
        rep.count("refusal_cases");
        rep.set("local_call_displacements", format!("{}", c.disp));
        let w = json!({"kind": "cranelift-refusal", "prog": crate::util::hex(&c.prog), "helpers_registered_under": c.helper_ids, "displacement": c.disp});
        match e {
            CaseEnd::Done(b) if b[0] == 0 => rep.count("refused_as_required"),
            CaseEnd::Done(b) if b[0] == 1 => {
                let v = u64::from_le_bytes(b[1..9].try_into().unwrap());
                let calls = u64::from_le_bytes(b[9..17].try_into().unwrap());
                rep.violation("C04:cranelift:local-call-compiled", format!("cranelift_compile accepted a program with an eBPF-to-eBPF call (displacement {}); running it returned {v:#x} and invoked registered helpers {calls} time(s)", c.disp), w);
            }
            CaseEnd::Done(b) if b[0] == 3 => rep.violation("C04:cranelift:local-call-panic", "compiling a program with a local call panicked".into(), w),
            CaseEnd::Done(_) => rep.count("refusal_other_error"),
            CaseEnd::Died(s, _) => rep.violation(&format!("C04:cranelift:local-call-signal-{}", sys::signame(*s)), "compiled local call crashed".into(), w),
            CaseEnd::CpuTimeout => rep.violation("C04:cranelift:local-call-diverged", "diverged".into(), w),
            CaseEnd::Inconclusive(s) => rep.inconclusive(s.clone()),
        }
    }
}
