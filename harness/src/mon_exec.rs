//! Execution monitors C01 / C03 / C04: workload mix and tiers.

use crate::diff::*;
use crate::engines::Engine;
use crate::exec::Family;
use crate::genp::*;
use crate::report::Report;
use crate::util::Rng;
use crate::Args;

pub struct Mix {
    pub micro: u64,
    pub structured: u64,
    pub long_lens: Vec<usize>,
}

fn mix_for(prop: &str, a: &Args) -> Mix {
    let q = a.tier == "quick";
    let scale = a.scale;
    let m = |x: u64| ((x as f64 * scale) as u64 / a.nshards).max(1);
    match prop {
        "C01" => Mix {
            micro: m(if q { 480_000 } else { 24_000_000 }),
            structured: m(if q { 64_000 } else { 3_200_000 }),
            long_lens: if q { vec![33_000, 66_000, 131_100] } else { vec![33_000, 40_000, 66_000, 70_000, 131_100, 500_000, 1_000_000] },
        },
        "C03" => Mix {
            micro: m(if q { 320_000 } else { 12_000_000 }),
            structured: m(if q { 48_000 } else { 1_600_000 }),
            long_lens: if q { vec![33_000, 66_000] } else { vec![33_000, 66_000, 70_000, 131_100, 500_000, 1_000_000] },
        },
        _ => Mix {
            micro: m(if q { 96_000 } else { 3_000_000 }),
            structured: m(if q { 12_000 } else { 320_000 }),
            long_lens: if q { vec![33_000] } else { vec![33_000, 66_000, 70_000] },
        },
    }
}

pub fn run(prop: &str, a: &Args, rep: &mut Report) {
    let mix = mix_for(prop, a);
    let engine = match prop {
        "C03" => Some(Engine::Jit),
        "C04" => Some(Engine::Cranelift),
        _ => None,
    };
    let batch_n = 512usize;
    let handle = |rep: &mut Report, batch: Vec<Pre>| match engine {
        None => check_c01(rep, &batch),
        Some(e) => check_compiled(rep, prop, &batch, e, if e == Engine::Jit { Family::Hostile } else { Family::Gentle }),
    };

    // ---- micro ----
    let mut rng = Rng::derive(a.seed, a.shard, 1);
    let mut batch: Vec<Pre> = Vec::new();
    // rotate the starting index per shard so that shards cover different (opcode, pair) cells
    let base = a.shard * 7919 + a.seed.wrapping_mul(104729) % 1000;
    for k in 0..mix.micro {
        let idx = base + k * a.nshards + a.shard;
        let (c, info) = gen_micro(&mut rng, idx);
        rep.set("micro_triples", format!("{:#04x}:{}:{}", info.opc, info.dst, info.src));
        rep.set("micro_operand_classes", format!("{:#04x}:{}:{}", info.opc, info.cls_a, info.cls_b));
        rep.set("micro_templates", info.template);
        let tag = format!("micro#{idx}");
        batch.push(pre_run(c, tag, BUDGET));
        if batch.len() >= batch_n {
            handle(rep, std::mem::take(&mut batch));
        }
    }
    handle(rep, std::mem::take(&mut batch));

    // ---- structured ----
    let mut rng = Rng::derive(a.seed, a.shard, 2);
    for k in 0..mix.structured {
        let calc = match rng.below(8) {
            0 => CalcSpec::Const(*rng.pick(&[0u16, 8, 64, 128, 256, 512])),
            1 => CalcSpec::Table(rng.below(16) as u16),
            _ => CalcSpec::None,
        };
        let opts = StructOpts {
            allow_local_calls: engine != Some(Engine::Cranelift) && rng.chance(1, 2),
            allow_helpers: rng.chance(2, 3),
            allow_mem: rng.chance(5, 6),
            max_body: *rng.pick(&[6usize, 12, 24, 40]),
            callee_stack: rng.chance(1, 2),
            calc,
        };
        let (c, feats) = gen_struct(&mut rng, &opts);
        for f in feats {
            rep.set("struct_features", f);
        }
        batch.push(pre_run(c, format!("struct#{}.{k}", a.shard), BUDGET));
        if batch.len() >= batch_n {
            handle(rep, std::mem::take(&mut batch));
        }
    }
    handle(rep, std::mem::take(&mut batch));

    // ---- long ----
    let mut rng = Rng::derive(a.seed, a.shard, 3);
    let mut li = 0u64;
    for (i, n) in mix.long_lens.iter().enumerate() {
        if cfg!(miri) {
            break; // far too slow under the interpreter-of-the-interpreter
        }
        for variant in 0..4u64 {
            // spread (length, variant) cells over shards
            li += 1;
            if li % a.nshards != a.shard % a.nshards {
                continue;
            }
            let n = if rng.chance(1, 2) { *n } else { n + rng.below(64) as usize };
            let n = n.min(1_000_000);
            if engine == Some(Engine::Cranelift) && n > 80_000 {
                continue;
            }
            let c = gen_long(&mut rng, n, variant);
            rep.set("long_cells", format!("{}:{}", mix.long_lens[i], c.class));
            batch.push(pre_run(c, format!("long#{n}.{variant}"), 4_000_000));
            handle(rep, std::mem::take(&mut batch));
        }
    }
}
