//! `mon replay <file>`: re-run one recorded violation and print what the real code does now.

use crate::diff::*;
use crate::engines::Engine;
use crate::exec::*;
use crate::genp::Case;
use crate::refvm::Outcome;
use crate::util::unhex;
use serde_json::Value;

pub fn run(path: &str) -> i32 {
    let Ok(txt) = std::fs::read_to_string(path) else {
        eprintln!("cannot read {path}");
        return 2;
    };
    let Ok(v) = serde_json::from_str::<Value>(&txt) else {
        eprintln!("not JSON");
        return 2;
    };
    let prop = v["property"].as_str().unwrap_or("?").to_string();
    let sig = v["signature"].as_str().unwrap_or("?").to_string();
    println!("property {prop}\nsignature {sig}\nrecorded: {}", v["detail"].as_str().unwrap_or(""));
    let r = &v["replay"];
    match r["kind"].as_str().unwrap_or("") {
        "exec-case" | "compile-case" => {
            let c = Case::from_json(&r["case"]);
            for l in crate::genp::disasm_lossy(&c.prog, 64) {
                println!("    {l}");
            }
            let p = pre_run(c, "replay".into(), BUDGET);
            println!("interpreter : {}", p.ir.ran.short());
            println!("reference   : {:?} ({} steps)", p.rr.outcome, p.rr.steps);
            let mut still = false;
            if let Some((k, d)) = c01_verdict(&p) {
                println!("interpreter vs reference: MISMATCH [{k}] {d}");
                if let Some(ops) = explained_by_alt(&p) {
                    println!("  (reproduced by the known alternative semantics: zero-extended immediate of {ops})");
                }
                still = true;
            }
            if matches!(p.rr.outcome, Outcome::Value(_)) && matches!(p.ir.ran, Ran::Ok(_)) {
                let engines: Vec<Engine> = if cfg!(feature = "std") { vec![Engine::Jit, Engine::Cranelift] } else { vec![Engine::Jit] };
                for e in engines {
                    if e == Engine::Cranelift && has_local_call(&p.case.prog) {
                        continue;
                    }
                    let ends = run_compiled(&[(&p.case, &p.bufs)], e, if e == Engine::Jit { Family::Hostile } else { Family::Gentle });
                    match compare_engine(&p, &ends[0], e) {
                        Ok(None) => println!("{:11} : agrees with the interpreter", e.name()),
                        Ok(Some(m)) => {
                            println!("{:11} : MISMATCH [{}] {}", e.name(), m.kind, m.detail);
                            still = true;
                        }
                        Err(s) => println!("{:11} : inconclusive ({s})", e.name()),
                    }
                }
            }
            if still { 1 } else { 0 }
        }
        "verify-case" => {
            let prog = unhex(r["prog"].as_str().unwrap_or(""));
            let want = crate::mon_c06::ref_verify(&prog);
            let got = crate::sys::catch(|| rbpf::EbpfVmRaw::new(Some(&prog)).map(|_| ()).map_err(crate::engines::es));
            println!("reference verifier: {want:?}\nreal verifier     : {got:?}");
            let same = matches!((&want, &got), (Ok(()), Ok(Ok(()))) | (Err(_), Ok(Err(_))));
            if same { 0 } else { 1 }
        }
        "asm-case" => {
            let text = r["text"].as_str().unwrap_or("");
            let got = crate::sys::catch(|| rbpf::assembler::assemble(text));
            println!("text: {text:?}\nassemble: {:?}", got.as_ref().map(|x| x.as_ref().map(|b| crate::util::hex(b))));
            if got.is_err() { 1 } else { 0 }
        }
        "disasm-case" | "roundtrip-case" => {
            let prog = unhex(r["prog"].as_str().unwrap_or(""));
            let got = crate::sys::catch(|| rbpf::disassembler::to_insn_vec(&prog).iter().map(|e| e.desc.clone()).collect::<Vec<_>>());
            println!("disassembly: {got:?}");
            if let Ok(lines) = &got {
                let t = lines.join("\n");
                let back = crate::sys::catch(|| rbpf::assembler::assemble(&t));
                println!("re-assembled: {:?}", back.as_ref().map(|x| x.as_ref().map(|b| crate::util::hex(b))));
            }
            if got.is_err() { 1 } else { 0 }
        }
        other => {
            println!("replay kind {other:?}: re-run the check with the recorded seed/tier to reproduce:\n  VERIF_SEED={} ./check {prop} {}\nwitness: {}", v["seed"], v["tier"].as_str().unwrap_or("quick"), serde_json::to_string_pretty(r).unwrap_or_default());
            0
        }
    }
}
