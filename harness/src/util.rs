//! Small shared utilities: seeded RNG, hashing, hex.

#[derive(Clone)]
pub struct Rng(pub u64);

impl Rng {
    pub fn new(seed: u64) -> Rng {
        let mut r = Rng(seed ^ 0x9e37_79b9_7f4a_7c15);
        r.next();
        r
    }
    /// Derive an independent stream (seed, shard, purpose).
    pub fn derive(seed: u64, a: u64, b: u64) -> Rng {
        let mut r = Rng::new(seed.wrapping_mul(0x2545_f491_4f6c_dd1d) ^ a.wrapping_mul(0xd6e8_feb8_6659_fd93) ^ b.wrapping_mul(0xca5a_8268_95f2_1b0d));
        r.next();
        r.next();
        r
    }
    #[inline]
    pub fn next(&mut self) -> u64 {
        self.0 = self.0.wrapping_add(0x9e37_79b9_7f4a_7c15);
        let mut z = self.0;
        z = (z ^ (z >> 30)).wrapping_mul(0xbf58_476d_1ce4_e5b9);
        z = (z ^ (z >> 27)).wrapping_mul(0x94d0_49bb_1331_11eb);
        z ^ (z >> 31)
    }
    #[inline]
    pub fn below(&mut self, n: u64) -> u64 {
        if n == 0 { 0 } else { self.next() % n }
    }
    #[inline]
    pub fn range(&mut self, lo: i64, hi: i64) -> i64 {
        // inclusive
        lo.wrapping_add(self.below((hi - lo + 1) as u64) as i64)
    }
    #[inline]
    pub fn chance(&mut self, num: u64, den: u64) -> bool {
        self.below(den) < num
    }
    #[inline]
    pub fn pick<'a, T>(&mut self, s: &'a [T]) -> &'a T {
        &s[self.below(s.len() as u64) as usize]
    }
    pub fn bytes(&mut self, n: usize) -> Vec<u8> {
        (0..n).map(|_| self.next() as u8).collect()
    }

    /// A 64-bit operand drawn from boundary classes; returns (value, class name).
    pub fn interesting_u64(&mut self) -> (u64, &'static str) {
        const FIXED: &[(u64, &str)] = &[
            (0, "0"),
            (1, "1"),
            (2, "2"),
            (u64::MAX, "-1"),
            (0x7fff_ffff, "i32max"),
            (0x8000_0000, "2^31"),
            (0xffff_ffff, "u32max"),
            (0x1_0000_0000, "2^32"),
            (0x1_0000_0001, "2^32+1"),
            (0xffff_ffff_8000_0000, "i32min"),
            (0x7fff_ffff_ffff_ffff, "i64max"),
            (0x8000_0000_0000_0000, "i64min"),
            (0xffff_ffff_0000_0000, "hi32"),
            (31, "31"),
            (32, "32"),
            (33, "33"),
            (63, "63"),
            (64, "64"),
            (65, "65"),
            (255, "255"),
            (0x1122_3344_5566_7788, "pattern"),
            (0x8000_0000_0000_0001, "i64min+1"),
            (0xffff, "u16max"),
            (0x8000, "2^15"),
        ];
        let k = self.below(FIXED.len() as u64 + 10);
        if (k as usize) < FIXED.len() {
            FIXED[k as usize]
        } else {
            match k as usize - FIXED.len() {
                0..=3 => (self.next(), "rand64"),
                4..=5 => (self.next() & 0xffff_ffff, "rand32"),
                6 => (self.next() | 0xffff_ffff_0000_0000, "rand32neg"),
                7 => (1u64 << self.below(64), "pow2"),
                8 => ((1u64 << self.below(64)).wrapping_sub(1), "pow2-1"),
                _ => (self.below(256), "small"),
            }
        }
    }

    /// A 32-bit immediate drawn from boundary classes.
    pub fn interesting_i32(&mut self) -> (i32, &'static str) {
        const FIXED: &[(i32, &str)] = &[
            (0, "0"),
            (1, "1"),
            (-1, "-1"),
            (2, "2"),
            (i32::MAX, "i32max"),
            (i32::MIN, "i32min"),
            (0x7fff, "0x7fff"),
            (0x8000, "0x8000"),
            (0xffff, "0xffff"),
            (127, "127"),
            (128, "128"),
            (-128, "-128"),
            (-129, "-129"),
            (31, "31"),
            (32, "32"),
            (33, "33"),
            (63, "63"),
            (64, "64"),
            (65, "65"),
            (255, "255"),
            (256, "256"),
            (i32::MIN + 1, "i32min+1"),
            (-2, "-2"),
        ];
        let k = self.below(FIXED.len() as u64 + 6);
        if (k as usize) < FIXED.len() {
            FIXED[k as usize]
        } else {
            match k as usize - FIXED.len() {
                0..=2 => (self.next() as i32, "rand"),
                3 => (1i32.wrapping_shl(self.below(32) as u32), "pow2"),
                4 => (-(self.below(65536) as i32), "smallneg"),
                _ => (self.below(65536) as i32, "small"),
            }
        }
    }

    pub fn interesting_i16(&mut self) -> (i16, &'static str) {
        const FIXED: &[(i16, &str)] = &[
            (0, "0"),
            (1, "1"),
            (-1, "-1"),
            (127, "127"),
            (128, "128"),
            (129, "129"),
            (-127, "-127"),
            (-128, "-128"),
            (-129, "-129"),
            (i16::MAX, "i16max"),
            (i16::MIN, "i16min"),
            (8, "8"),
            (-8, "-8"),
        ];
        let k = self.below(FIXED.len() as u64 + 3);
        if (k as usize) < FIXED.len() { FIXED[k as usize] } else { (self.next() as i16, "rand") }
    }
}

pub const FNV_OFFSET: u64 = 0xcbf2_9ce4_8422_2325;
pub const FNV_PRIME: u64 = 0x0000_0100_0000_01b3;

pub fn fnv(bytes: &[u8]) -> u64 {
    let mut h = FNV_OFFSET;
    for b in bytes {
        h = (h ^ *b as u64).wrapping_mul(FNV_PRIME);
    }
    h
}

pub fn fnv_mix(h: u64, v: u64) -> u64 {
    let mut h = h;
    for b in v.to_le_bytes() {
        h = (h ^ b as u64).wrapping_mul(FNV_PRIME);
    }
    h
}

pub fn hex(b: &[u8]) -> String {
    let mut s = String::with_capacity(b.len() * 2);
    for x in b {
        s.push_str(&format!("{:02x}", x));
    }
    s
}

pub fn unhex(s: &str) -> Vec<u8> {
    let s = s.as_bytes();
    let mut v = Vec::with_capacity(s.len() / 2);
    let d = |c: u8| -> u8 {
        match c {
            b'0'..=b'9' => c - b'0',
            b'a'..=b'f' => c - b'a' + 10,
            b'A'..=b'F' => c - b'A' + 10,
            _ => 0,
        }
    };
    let mut i = 0;
    while i + 1 < s.len() {
        v.push(d(s[i]) << 4 | d(s[i + 1]));
        i += 2;
    }
    v
}
