//! `mon <property> --tier quick|thorough --seed S --shard i --nshards n --variant v --out file`
//! `mon replay <file>`
//! `mon merge-hashes files...`

#![allow(clippy::too_many_arguments)]
#![allow(static_mut_refs)]

mod util;
mod isa;
mod refvm;
mod report;
mod sys;
mod engines;
mod hlp;
mod mon_par;
mod genp;
mod exec;
mod diff;
mod mon_exec;
mod mon_c06;
mod replay;
mod mon_c18;
mod mon_c10;
mod mon_c09;
mod mon_c08;
mod mon_c07;
mod mon_soup;
mod mon_c02;
mod mon_text;
mod mon_c20;
#[cfg(any(feature = "std", feature = "stdlite"))]
mod mon_c19;

pub struct Args {
    pub prop: String,
    pub tier: String,
    pub seed: u64,
    pub shard: u64,
    pub nshards: u64,
    pub variant: String,
    pub out: String,
    /// multiplies workload sizes (sanitizer variants use < 1)
    pub scale: f64,
    pub rest: Vec<String>,
}

fn parse_args() -> Args {
    let argv: Vec<String> = std::env::args().collect();
    let mut a = Args {
        prop: argv.get(1).cloned().unwrap_or_default(),
        tier: "quick".into(),
        seed: 1,
        shard: 0,
        nshards: 1,
        variant: "fast".into(),
        out: String::new(),
        scale: 1.0,
        rest: Vec::new(),
    };
    let mut i = 2;
    while i < argv.len() {
        let v = argv.get(i + 1).cloned().unwrap_or_default();
        match argv[i].as_str() {
            "--tier" => a.tier = v,
            "--seed" => a.seed = v.parse().unwrap_or(1),
            "--shard" => a.shard = v.parse().unwrap_or(0),
            "--nshards" => a.nshards = v.parse().unwrap_or(1),
            "--variant" => a.variant = v,
            "--out" => a.out = v,
            "--scale" => a.scale = v.parse().unwrap_or(1.0),
            "--par-mult" => mon_par::PAR_MULT.store(v.parse().unwrap_or(1), std::sync::atomic::Ordering::Relaxed),
            _ => {
                a.rest.push(argv[i].clone());
                i += 1;
                continue;
            }
        }
        i += 2;
    }
    a
}

fn main() {
    let a = parse_args();
    if a.prop == "merge-hashes" {
        let files: Vec<String> = std::env::args().skip(2).collect();
        println!("{}", report::merge_hashes(&files));
        return;
    }
    sys::install_panic_hook();
    // applications commonly enable logging: make the crate's log statements evaluate their arguments
    log::set_max_level(log::LevelFilter::Trace);
    if a.prop == "replay" {
        let path = std::env::args().nth(2).unwrap_or_default();
        std::process::exit(replay::run(&path));
    }
    let mut rep = report::Report::new(&a.prop, &a.variant);
    let t0 = std::time::Instant::now();
    match a.prop.as_str() {
        "C01" | "C03" => mon_exec::run(&a.prop.clone(), &a, &mut rep),
        #[cfg(feature = "std")]
        "C04" => mon_exec::run(&a.prop.clone(), &a, &mut rep),
        "C06" => mon_c06::run(&a, &mut rep),
        "C18" => mon_c18::run(&a, &mut rep),
        "C10" => mon_c10::run(&a, &mut rep),
        "C09" => mon_c09::run(&a, &mut rep),
        "C08" => mon_c08::run(&a, &mut rep),
        "C07" => mon_c07::run(&a, &mut rep),
        "C05" => mon_soup::run_c05(&a, &mut rep),
        "C12" => mon_soup::run_c12(&a, &mut rep),
        "C02" => mon_c02::run(&a, &mut rep, false),
        #[cfg(feature = "std")]
        "C11" => mon_c02::run(&a, &mut rep, true),
        #[cfg(any(feature = "std", feature = "stdlite"))]
        "C19" => mon_c19::run(&a, &mut rep),
        "C20" => mon_c20::run(&a, &mut rep),
        "C13" => mon_text::run_c13(&a, &mut rep),
        "C14" => mon_text::run_c14(&a, &mut rep),
        "C15" => mon_text::run_c15(&a, &mut rep),
        "C16" => mon_text::run_c16(&a, &mut rep),
        "C17" => mon_text::run_c17(&a, &mut rep),
        "dbg-micro" => {
            let mut rng = util::Rng::new(5);
            let mut m = std::collections::BTreeMap::new();
            for idx in 0..200000u64 {
                let (c, info) = genp::gen_micro(&mut rng, idx);
                *m.entry((info.template, c.class.clone())).or_insert(0) += 1;
            }
            eprintln!("{m:?}");
            return;
        }
        #[cfg(feature = "std")]
        "dbg-long" => {
            dbg_long(&a);
            return;
        }
        other => {
            eprintln!("unknown property/command {other}");
            std::process::exit(2);
        }
    }
    rep.add("wall_ms", t0.elapsed().as_millis() as u64);
    if a.out.is_empty() {
        println!("{}", serde_json::to_string_pretty(&rep.to_json()).unwrap());
    } else {
        let soaks = exec::SOAKS.load(std::sync::atomic::Ordering::Relaxed);
        if soaks > 0 {
            rep.add("soaked_interpreter_cases", soaks);
            rep.add("soak_extra_executions_on_one_interpreter_vm", exec::SOAK_EXECS.load(std::sync::atomic::Ordering::Relaxed));
        }
        let nested = hlp::NESTED_RUNS.load(std::sync::atomic::Ordering::Relaxed);
        if nested > 0 {
            rep.add("nested_interpreter_runs_inside_helper6_this_process", nested);
        }
        rep.write(&a.out);
    }
}

#[cfg(feature = "std")]
pub fn dbg_long(a: &Args) {
    let n: usize = a.rest.first().and_then(|s| s.parse().ok()).unwrap_or(33000);
    for variant in 0..6u64 {
        let mut rng = util::Rng::new(1);
        let c = genp::gen_long(&mut rng, n, variant);
        let t = std::time::Instant::now();
        let mut vm = exec::build_vm(&c, exec::Family::Plain).unwrap();
        let r = vm.cl_compile();
        eprintln!("{} n={} cranelift compile {:?} in {:?}", c.class, n, r.is_ok(), t.elapsed());
        let t = std::time::Instant::now();
        let r = vm.jit_compile();
        eprintln!("   jit compile {:?} in {:?}", r.is_ok(), t.elapsed());
        let t = std::time::Instant::now();
        let ri = vm.exec((std::ptr::null_mut(), 0), (std::ptr::null_mut(), 0));
        eprintln!("   interp {:?} in {:?}", ri, t.elapsed());
        let t = std::time::Instant::now();
        let e = sys::in_child(20, 60, || {
            let r = vm.exec_cl((std::ptr::null_mut(), 0), (std::ptr::null_mut(), 0));
            eprintln!("   cranelift exec {:?}", r);
        });
        eprintln!("   cranelift child {:?} in {:?}", e, t.elapsed());
    }
}
