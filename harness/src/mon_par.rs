//! "Independent objects on different threads": the crate's VMs and free functions are used from
//! several threads at once by real programs (one VM per worker, one assembler call per request).
//! The monitors here re-run work whose sequential outcome is known on T threads at the same time -
//! every thread on its OWN VM, buffers and inputs - and require every concurrent outcome to equal the
//! sequential one. Nothing is shared between the threads except the crate itself, so a deviation is
//! interference through state inside the crate (a cache, a pool, a `static mut`, a scratch buffer).
//!
//! Cases are restricted to those the reference machine classified as address independent, because
//! every thread places its buffers elsewhere.

use crate::diff::Pre;
use crate::engines::{hooks, Engine};
use crate::exec::{build_vm, Bufs, Family, Ran};
use crate::refvm::Outcome;
use crate::report::Report;
use crate::sys::{self, CaseEnd};
use serde_json::json;
use std::sync::{Barrier, Mutex};

pub const THREADS: usize = 8;

/// Multiplier of the number of concurrent rounds (and sessions); 0 disables the concurrent phases.
/// The driver runs the 16 shards of a variant at the same time, which oversubscribes the cores: 8
/// threads of one shard then mostly take turns instead of running at once, and windows of a few
/// nanoseconds are never hit. The driver therefore runs a dedicated pass (`par` variant: 2 shards,
/// a small sequential part, many rounds) on an otherwise idle machine and sets 0 for the others.
pub static PAR_MULT: std::sync::atomic::AtomicUsize = std::sync::atomic::AtomicUsize::new(1);
pub fn par_mult() -> usize {
    PAR_MULT.load(std::sync::atomic::Ordering::Relaxed)
}

/// Compute `f` for every item once on the calling thread, then `rounds` times on each of
/// `THREADS` threads concurrently (each thread walks the items in its own order); returns the
/// number of concurrent evaluations and a description of every deviation (capped).
pub fn par_same<T: Sync, R: PartialEq + Send + Sync + std::fmt::Debug>(items: &[T], f: impl Fn(&T) -> R + Sync, rounds: usize) -> (u64, Vec<(usize, String)>) {
    if items.is_empty() || par_mult() == 0 {
        return (0, Vec::new());
    }
    let rounds = rounds * par_mult();
    let expected: Vec<R> = items.iter().map(|t| f(t)).collect();
    let bad: Mutex<Vec<(usize, String)>> = Mutex::new(Vec::new());
    let barrier = Barrier::new(THREADS);
    let n = items.len();
    std::thread::scope(|sc| {
        for t in 0..THREADS {
            let (expected, bad, barrier, f) = (&expected, &bad, &barrier, &f);
            sc.spawn(move || {
                barrier.wait();
                for r in 0..rounds {
                    // a thread-specific stride coprime with n visits every item in another order
                    let stride = [1usize, 7, 11, 13, 17, 19, 23, 29][(t + r) % 8];
                    let stride = if n % stride == 0 { 1 } else { stride };
                    let mut i = (t * 7919 + r * 104729) % n;
                    // odd rounds: all threads walk the items in the SAME order from the same start
                    // line, so that the same input is often being processed by several threads
                    let (stride, lockstep) = if r % 2 == 1 { (1, true) } else { (stride, false) };
                    if lockstep {
                        i = 0;
                        barrier.wait();
                    }
                    for _ in 0..n {
                        let got = f(&items[i]);
                        if got != expected[i] {
                            let mut b = bad.lock().unwrap();
                            if b.len() < 20 {
                                b.push((i, format!("thread {t} round {r}: sequential {:?}, concurrent {:?}", trunc(&expected[i]), trunc(&got))));
                            }
                        }
                        i = (i + stride) % n;
                    }
                }
            });
        }
    });
    ((n * rounds * THREADS) as u64, bad.into_inner().unwrap())
}

fn trunc<R: std::fmt::Debug>(r: &R) -> String {
    let s = format!("{r:?}");
    if s.len() > 300 { format!("{}...", &s[..300]) } else { s }
}

/// Report helper for the pure-function monitors.
pub fn report_par(rep: &mut Report, prop: &str, what: &str, execs: u64, bad: Vec<(usize, String)>, describe: impl Fn(usize) -> serde_json::Value) {
    rep.add("concurrent_evaluations", execs);
    rep.set("concurrent_workloads", what);
    for (i, d) in bad {
        rep.violation(&format!("{prop}:concurrent:{what}:differs-from-sequential"), format!("{THREADS} threads, each on its own input: {d}"), json!({"kind": "concurrent-session", "what": what, "item": describe(i)}));
    }
}

#[derive(Debug, Clone)]
struct ExecOut {
    /// error text, for the report only (may contain addresses: not compared)
    note: String,
    /// 0 Ok, 1 Err, 2 panic, 3 refused/compile error
    status: u8,
    value: u64,
    pkt: Vec<u8>,
    mbuff: Vec<u8>,
}

/// the parts of a pre-run case the worker threads read (plain data, unlike `Pre` with its buffers)
struct ParCase<'a> {
    case: &'a crate::genp::Case,
    pkt_mask: &'a [bool],
    mbuff_mask: &'a [bool],
}

impl PartialEq for ExecOut {
    fn eq(&self, o: &ExecOut) -> bool {
        self.status == o.status && self.value == o.value && self.pkt == o.pkt && self.mbuff == o.mbuff
    }
}

fn run_one(p: &ParCase, engine: Engine, recompiles: usize) -> ExecOut {
    let c = p.case;
    let bufs = Bufs::new(c);
    let r = sys::catch(|| -> Result<Result<u64, String>, String> {
        let mut vm = build_vm(c, Family::Plain)?;
        match engine {
            Engine::Interp => Ok(vm.exec(bufs.pkt_raw(), bufs.mbuff_raw())),
            Engine::Jit => {
                #[cfg(not(any(feature = "std", feature = "stdlite")))]
                {
                    let need = (c.prog.len() / 8 * 64 + 8192 + 4095) & !4095;
                    let _ = vm.set_jit_exec_memory(crate::exec::exec_memory(need));
                }
                vm.jit_compile()?;
                // tight re-compilation: the threads spend their time acquiring and releasing code regions
                for _ in 0..recompiles {
                    #[cfg(not(any(feature = "std", feature = "stdlite")))]
                    {
                        let need = (c.prog.len() / 8 * 64 + 8192 + 4095) & !4095;
                        let _ = vm.set_jit_exec_memory(crate::exec::exec_memory(need));
                    }
                    vm.jit_compile()?;
                }
                Ok(unsafe { vm.exec_jit(bufs.pkt_raw(), bufs.mbuff_raw()) })
            }
            #[cfg(feature = "std")]
            Engine::Cranelift => {
                vm.cl_compile()?;
                Ok(vm.exec_cl(bufs.pkt_raw(), bufs.mbuff_raw()))
            }
            #[cfg(not(feature = "std"))]
            Engine::Cranelift => Err("cranelift not built".into()),
        }
    });
    // only the bytes within the claim (address independent) are kept
    let mask = |bytes: Vec<u8>, m: &[bool]| -> Vec<u8> { if m.len() == bytes.len() { bytes.iter().zip(m.iter()).map(|(b, k)| if *k { *b } else { 0 }).collect() } else { Vec::new() } };
    let (status, value, note) = match r {
        Ok(Ok(Ok(v))) => (0, v, String::new()),
        Ok(Ok(Err(e))) => (1, 0, e.chars().take(120).collect()),
        Ok(Err(e)) => (3, 0, e.chars().take(120).collect()),
        Err(p) => (2, 0, p.chars().take(120).collect()),
    };
    ExecOut { note, status, value, pkt: mask(bufs.pkt_bytes(), p.pkt_mask), mbuff: mask(bufs.mbuff_bytes(), p.mbuff_mask) }
}

/// Concurrent executions (and, for the compilers, concurrent compilations) of address-independent
/// cases on per-thread VMs, inside one forked child. `batch` comes from `pre_run`.
pub fn exec_par(rep: &mut Report, prop: &str, batch: &[Pre], engine: Engine) {
    exec_par_full(rep, prop, batch, engine, 2, 0)
}

pub fn exec_par_rounds(rep: &mut Report, prop: &str, batch: &[Pre], engine: Engine, rounds: usize) {
    exec_par_full(rep, prop, batch, engine, rounds, 0)
}

/// `recompiles`: extra JIT compilations of the same VM before it is executed
pub fn exec_par_full(rep: &mut Report, prop: &str, batch: &[Pre], engine: Engine, rounds: usize, recompiles: usize) {
    let elig: Vec<ParCase> = batch
        .iter()
        .filter(|p| {
            let value = matches!(p.rr.outcome, Outcome::Value(_)) && matches!(p.ir.ran, Ran::Ok(_));
            // error paths too, for the interpreter (refused accesses, call depth): the error must be the same
            // (a refused access is only address independent when no second heap-allocated region
            // exists: on the fixed VM an access below the heap-allocated stack can land inside the
            // heap-allocated internal buffer in one thread's heap layout and not in another's)
            let oob_ok = matches!(p.rr.outcome, Outcome::Oob { .. }) && p.case.kind != crate::engines::Kind::Fixed;
            let refused = engine == Engine::Interp && (oob_ok || matches!(p.rr.outcome, Outcome::Misaligned { .. } | Outcome::DepthExceeded { .. })) && matches!(p.ir.ran, Ran::Err(_));
            (value || refused) && !p.rr.neg_ldabs && p.case.prog.len() <= 8 * 4200 * 2
        })
        .map(|p| ParCase { case: &p.case, pkt_mask: &p.rr.pkt_mask, mbuff_mask: &p.rr.mbuff_mask })
        .collect();
    if elig.is_empty() || cfg!(miri) || par_mult() == 0 {
        return;
    }
    let ends = sys::run_batch(1, 300, 300, |_i, out| {
        hooks::unlimited();
        let (execs, bad) = par_same(&elig, |p| run_one(p, engine, recompiles), rounds);
        out.extend_from_slice(&execs.to_le_bytes());
        out.extend_from_slice(&(bad.len() as u32).to_le_bytes());
        for (i, d) in bad {
            out.extend_from_slice(&(i as u32).to_le_bytes());
            let b = d.as_bytes();
            out.extend_from_slice(&(b.len().min(600) as u32).to_le_bytes());
            out.extend_from_slice(&b[..b.len().min(600)]);
        }
    });
    let what = format!("{}-execution", engine.name());
    rep.set("concurrent_workloads", what.clone());
    match &ends[0] {
        CaseEnd::Done(b) if b.len() >= 12 => {
            rep.add("concurrent_evaluations", u64::from_le_bytes(b[0..8].try_into().unwrap()));
            rep.add("concurrent_sessions", 1);
            let n = u32::from_le_bytes(b[8..12].try_into().unwrap()) as usize;
            let mut pos = 12;
            for _ in 0..n {
                let i = u32::from_le_bytes(b[pos..pos + 4].try_into().unwrap()) as usize;
                let l = u32::from_le_bytes(b[pos + 4..pos + 8].try_into().unwrap()) as usize;
                let d = String::from_utf8_lossy(&b[pos + 8..pos + 8 + l]).to_string();
                pos += 8 + l;
                let p = &elig[i];
                rep.violation(&format!("{prop}:concurrent:{what}:differs-from-sequential"), format!("{THREADS} threads, each with its own VM and buffers: {d}"),
                    json!({"kind": "concurrent-session", "what": what, "vm": p.case.kind.name(), "prog": crate::util::hex(&p.case.prog[..p.case.prog.len().min(512)]), "pkt": crate::util::hex(&p.case.pkt)}));
            }
        }
        CaseEnd::Done(_) => rep.inconclusive("concurrent session: short record".into()),
        CaseEnd::Died(s, _) => {
            rep.violation(&format!("{prop}:concurrent:{what}:signal-{}", sys::signame(*s)), format!("{THREADS} threads running {} address-independent, in-bounds cases each on its own VM: the process was killed by {}", elig.len(), sys::signame(*s)), json!({"kind": "concurrent-session", "what": what, "cases": elig.len()}));
        }
        CaseEnd::CpuTimeout => rep.inconclusive("concurrent session: cpu limit".into()),
        CaseEnd::Inconclusive(s) => rep.inconclusive(format!("concurrent session: {s}")),
    }
}
