//! Per-shard accumulator of what the monitors observed; serialised to JSON for the driver.

use serde_json::{Value, json};
use std::collections::{BTreeMap, BTreeSet, HashSet};

pub struct Violation {
    /// stable signature: what fails, not the concrete random operands
    pub sig: String,
    pub detail: String,
    /// self-contained replay description
    pub replay: Value,
}

pub struct Report {
    pub prop: String,
    pub variant: String,
    pub counters: BTreeMap<String, u64>,
    pub sets: BTreeMap<String, BTreeSet<String>>,
    pub samples: Vec<Value>,
    pub violations: Vec<Violation>,
    pub inconclusive: Vec<String>,
    pub hashes: HashSet<u64>,
    pub hash_cap: usize,
    pub max_samples: usize,
    per_sig: BTreeMap<String, u32>,
}

impl Report {
    pub fn new(prop: &str, variant: &str) -> Report {
        Report {
            prop: prop.to_string(),
            variant: variant.to_string(),
            counters: BTreeMap::new(),
            sets: BTreeMap::new(),
            samples: Vec::new(),
            violations: Vec::new(),
            inconclusive: Vec::new(),
            hashes: HashSet::new(),
            hash_cap: 6_000_000,
            max_samples: 6,
            per_sig: BTreeMap::new(),
        }
    }
    pub fn count(&mut self, k: &str) {
        *self.counters.entry(k.to_string()).or_insert(0) += 1;
    }
    pub fn add(&mut self, k: &str, n: u64) {
        *self.counters.entry(k.to_string()).or_insert(0) += n;
    }
    pub fn max(&mut self, k: &str, n: u64) {
        let e = self.counters.entry(k.to_string()).or_insert(0);
        if n > *e {
            *e = n;
        }
    }
    pub fn get(&self, k: &str) -> u64 {
        *self.counters.get(k).unwrap_or(&0)
    }
    pub fn set(&mut self, k: &str, v: impl Into<String>) {
        self.sets.entry(k.to_string()).or_default().insert(v.into());
    }
    /// record one evaluated case; `nontrivial_hash` = Some(content hash) if it is non-trivial
    pub fn case(&mut self, nontrivial_hash: Option<u64>) {
        self.count("evaluations");
        if let Some(h) = nontrivial_hash {
            if self.hashes.len() < self.hash_cap {
                self.hashes.insert(h);
            } else {
                self.count("hash_cap_overflow");
            }
        }
    }
    pub fn sample(&mut self, v: Value) {
        if self.samples.len() < self.max_samples {
            self.samples.push(v);
        }
    }
    pub fn want_sample(&self) -> bool {
        self.samples.len() < self.max_samples
    }
    /// Record a violation; keeps at most 3 witnesses per signature (counts all).
    pub fn violation(&mut self, sig: &str, detail: String, replay: Value) {
        self.count("violations_total");
        let n = self.per_sig.entry(sig.to_string()).or_insert(0);
        *n += 1;
        if *n <= 3 {
            self.violations.push(Violation { sig: sig.to_string(), detail, replay });
        }
    }
    pub fn sig_count(&self, sig: &str) -> u32 {
        *self.per_sig.get(sig).unwrap_or(&0)
    }
    pub fn sig_count_prefix(&self, prefix: &str) -> u32 {
        self.per_sig.iter().filter(|(k, _)| k.starts_with(prefix)).map(|(_, v)| *v).sum()
    }
    pub fn inconclusive(&mut self, what: String) {
        self.count("inconclusive");
        if self.inconclusive.len() < 20 {
            self.inconclusive.push(what);
        }
    }

    pub fn to_json(&self) -> Value {
        let sets: BTreeMap<&String, Vec<&String>> = self.sets.iter().map(|(k, v)| (k, v.iter().collect())).collect();
        let viol: Vec<Value> = self
            .violations
            .iter()
            .map(|v| json!({"sig": v.sig, "detail": v.detail, "replay": v.replay, "count": self.per_sig.get(&v.sig)}))
            .collect();
        json!({
            "prop": self.prop,
            "variant": self.variant,
            "counters": self.counters,
            "sets": sets,
            "samples": self.samples,
            "violations": viol,
            "sig_counts": self.per_sig,
            "inconclusive": self.inconclusive,
            "distinct_local": self.hashes.len(),
        })
    }

    pub fn write(&self, out: &str) {
        std::fs::write(out, serde_json::to_string(&self.to_json()).unwrap()).expect("write report");
        // distinct-case hashes, for exact cross-shard distinct counting by the driver
        let mut hb: Vec<u8> = Vec::with_capacity(self.hashes.len() * 8);
        for h in &self.hashes {
            hb.extend_from_slice(&h.to_le_bytes());
        }
        std::fs::write(format!("{out}.hashes"), hb).expect("write hashes");
    }
}

/// `mon merge-hashes f1 f2 ...` : prints the number of distinct u64 values over all files.
pub fn merge_hashes(files: &[String]) -> usize {
    let mut all: Vec<u64> = Vec::new();
    for f in files {
        if let Ok(b) = std::fs::read(f) {
            for c in b.chunks_exact(8) {
                all.push(u64::from_le_bytes(c.try_into().unwrap()));
            }
        }
    }
    all.sort_unstable();
    all.dedup();
    all.len()
}
