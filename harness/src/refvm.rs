//! Reference eBPF machine: an executable statement of the semantics in properties C01/C02/C07/C08,
//! written independently of rbpf's interpreter. Taint-tracking and three-valued: a run is `Clean`
//! (the outcome is predicted exactly), `OutOfClaim` (outcome depends on undefined state or raw
//! addresses) or one of the error outcomes.

use crate::isa::*;
use crate::util::{FNV_OFFSET, FNV_PRIME};

#[derive(Clone, Copy, PartialEq, Eq, Debug)]
pub enum Taint {
    Clean,
    /// never written register / stack byte, r1-r5 after a helper call
    Undef,
    /// exact pointer into region #n (0 = stack, 1 = packet, 2 = metadata buffer, 3+ = other):
    /// base + k tracked exactly (value holds the concrete address)
    Rel(u8),
    /// some other function of a raw stack address
    AddrDep,
}

#[derive(Clone, Copy, Debug)]
pub struct V {
    pub v: u64,
    pub t: Taint,
}

impl V {
    pub fn clean(v: u64) -> V {
        V { v, t: Taint::Clean }
    }
}

fn join(a: Taint, b: Taint) -> Taint {
    use Taint::*;
    match (a, b) {
        (Clean, Clean) => Clean,
        (Undef, _) | (_, Undef) => Undef,
        _ => AddrDep,
    }
}

pub struct Region {
    pub name: &'static str,
    pub base: u64,
    pub data: Vec<u8>,
    /// per byte: 0 clean, 1 undef, 2 addr-dependent
    pub taint: Vec<u8>,
    /// 8-byte slots currently holding an exact pointer: (offset, region id pointed into)
    pub ptr_slots: Vec<(usize, u8)>,
    /// id used in Taint::Rel for pointers INTO this region
    pub id: u8,
}

impl Region {
    pub fn new(name: &'static str, base: u64, data: &[u8]) -> Region {
        let id = match name {
            "stack" => 0,
            "pkt" => 1,
            "mbuff" | "fixedmbuff" => 2,
            _ => 3,
        };
        Region { name, base, data: data.to_vec(), taint: vec![0; data.len()], ptr_slots: Vec::new(), id }
    }
    /// mark the 8 bytes at `off` as holding an exact pointer into region `into`
    pub fn set_ptr_slot(&mut self, off: usize, into: u8) {
        for k in 0..8 {
            self.taint[off + k] = 2;
        }
        self.ptr_slots.retain(|(o, _)| *o != off);
        self.ptr_slots.push((off, into));
    }
}

#[derive(Clone, Debug, PartialEq, Eq)]
pub enum Outcome {
    /// exit at depth 0 with a clean r0
    Value(u64),
    /// an access left every region: the interpreter must return Err
    Oob { pc: usize, addr: u64, width: u8, store: bool },
    /// misaligned atomic add (interpreter: Err)
    Misaligned { pc: usize },
    /// more than 8 nested calls (interpreter: Err)
    DepthExceeded { pc: usize },
    /// call to an id that is not registered (interpreter: Err when reached)
    UnknownHelper { pc: usize, id: u32 },
    /// outcome depends on undefined state / raw addresses; string says why
    OutOfClaim(&'static str),
    /// step budget exhausted
    Budget,
    /// the program did something a verified program cannot do (bad opcode, pc outside, ...)
    Illegal(&'static str, usize),
}

#[derive(Clone, Debug)]
pub struct HelperCall {
    pub pc: usize,
    pub id: u32,
    pub args: [u64; 5],
    pub arg_clean: [bool; 5],
    pub depth: usize,
}

pub struct Frame {
    ret_pc: usize,
    saved: [V; 4],
    frame_size: u64,
    entry_pc: usize,
}

pub struct RefVm<'a> {
    pub prog: &'a [u8],
    pub reg: [V; 11],
    pub regions: Vec<Region>,
    /// index into regions of the stack
    pub stack_idx: usize,
    pub stack_top: u64,
    /// index of packet region for ld_abs/ld_ind (None: no packet => base 0 / empty)
    pub pkt_base: u64,
    pub steps: u64,
    pub pc_hash: u64,
    pub max_pc: usize,
    pub max_jump: i64,
    pub trace: Vec<u32>,
    pub trace_cap: usize,
    pub helper_log: Vec<HelperCall>,
    pub max_depth: usize,
    /// ld_abs/ld_ind with a negative immediate was executed (address interpretation ambiguous)
    pub neg_ldabs: bool,
    /// opcodes executed (by opcode byte)
    pub executed: [u32; 256],
    /// branches: per opcode, (taken, not taken)
    pub br_taken: [u32; 256],
    pub br_not: [u32; 256],
    pub xadd_done: u32,
    pub helper_fn: &'a dyn Fn(u32, [u64; 5]) -> Option<u64>,
    pub frame_size_of: &'a dyn Fn(usize) -> u64,
    /// ALTERNATIVE semantics used only to attribute a violation to a known finding: unsigned
    /// 64-bit comparisons against an immediate zero-extend it instead of sign-extending it.
    pub alt_zext_unsigned_imm: bool,
    /// opcodes at which the alternative semantics changed a branch outcome
    pub alt_diverged: Vec<u8>,
}

pub fn no_helpers(_id: u32, _a: [u64; 5]) -> Option<u64> {
    None
}
pub fn default_frame(_pc: usize) -> u64 {
    256
}

pub struct Setup<'a> {
    pub prog: &'a [u8],
    /// initial r1
    pub r1: u64,
    pub stack_addr: u64,
    /// regions other than the stack (packet, mbuff, allowed ranges)
    pub regions: Vec<Region>,
    pub pkt_base: u64,
    pub helper_fn: &'a dyn Fn(u32, [u64; 5]) -> Option<u64>,
    pub frame_size_of: &'a dyn Fn(usize) -> u64,
    pub trace_cap: usize,
    pub alt_zext_unsigned_imm: bool,
}

impl<'a> RefVm<'a> {
    pub fn new(s: Setup<'a>) -> RefVm<'a> {
        // In the alternative (attribution-only) mode the machine mirrors the interpreter's concrete
        // behaviour: registers and stack start as zeros and helper calls leave r1-r5 alone.
        let undef = V { v: 0, t: if s.alt_zext_unsigned_imm { Taint::Clean } else { Taint::Undef } };
        let mut reg = [undef; 11];
        let stack_top = s.stack_addr.wrapping_add(512);
        reg[10] = V { v: stack_top, t: Taint::Rel(0) };
        let mut regions = s.regions;
        // r1 is a raw address as well: an exact pointer into the region it points to
        reg[1] = V::clean(s.r1);
        if s.r1 != 0 {
            for r in &regions {
                if r.base <= s.r1 && s.r1 <= r.base + r.data.len() as u64 {
                    reg[1].t = Taint::Rel(r.id);
                    break;
                }
            }
        }
        let mut st = Region::new("stack", s.stack_addr, &[0u8; 512]);
        st.taint = vec![if s.alt_zext_unsigned_imm { 0 } else { 1 }; 512];
        regions.push(st);
        let stack_idx = regions.len() - 1;
        RefVm {
            prog: s.prog,
            reg,
            regions,
            stack_idx,
            stack_top,
            pkt_base: s.pkt_base,
            steps: 0,
            pc_hash: FNV_OFFSET,
            max_pc: 0,
            max_jump: 0,
            trace: Vec::new(),
            trace_cap: s.trace_cap,
            helper_log: Vec::new(),
            max_depth: 0,
            neg_ldabs: false,
            executed: [0; 256],
            br_taken: [0; 256],
            br_not: [0; 256],
            xadd_done: 0,
            helper_fn: s.helper_fn,
            frame_size_of: s.frame_size_of,
            alt_zext_unsigned_imm: s.alt_zext_unsigned_imm,
            alt_diverged: Vec::new(),
        }
    }

    fn find(&self, addr: u64, w: u64) -> Option<(usize, usize)> {
        let end = addr.checked_add(w)?;
        for (i, r) in self.regions.iter().enumerate() {
            let rend = r.base + r.data.len() as u64;
            if r.base <= addr && end <= rend {
                return Some((i, (addr - r.base) as usize));
            }
        }
        None
    }

    /// an access through an exact pointer into region `id` that lands inside a DIFFERENT region
    /// only works by accident of the address-space layout: outside the claim
    fn crosses(&self, base: Taint, addr: u64, w: u8) -> bool {
        if let Taint::Rel(id) = base {
            if let Some((ri, _)) = self.find(addr, w as u64) {
                return self.regions[ri].id != id;
            }
        }
        false
    }

    fn load(&self, addr: u64, w: u8) -> Option<V> {
        let (ri, o) = self.find(addr, w as u64)?;
        let r = &self.regions[ri];
        if w == 8 {
            if let Some((_, into)) = r.ptr_slots.iter().find(|(po, _)| *po == o) {
                let v = u64::from_le_bytes(r.data[o..o + 8].try_into().unwrap());
                return Some(V { v, t: Taint::Rel(*into) });
            }
        }
        let mut v = 0u64;
        let mut t = Taint::Clean;
        for k in 0..w as usize {
            v |= (r.data[o + k] as u64) << (8 * k);
            t = join(
                t,
                match r.taint[o + k] {
                    0 => Taint::Clean,
                    1 => Taint::Undef,
                    _ => Taint::AddrDep,
                },
            );
        }
        Some(V { v, t })
    }

    fn store(&mut self, addr: u64, w: u8, val: V) -> bool {
        let Some((ri, o)) = self.find(addr, w as u64) else { return false };
        let r = &mut self.regions[ri];
        let tb = match val.t {
            Taint::Clean => 0,
            Taint::Undef => 1,
            _ => 2,
        };
        for k in 0..w as usize {
            r.data[o + k] = (val.v >> (8 * k)) as u8;
            r.taint[o + k] = tb;
        }
        // any overlapping pointer slot is gone; a full 8-byte store of an exact pointer makes one
        r.ptr_slots.retain(|(po, _)| po + 8 <= o || o + w as usize <= *po);
        if w == 8 {
            if let Taint::Rel(into) = val.t {
                r.ptr_slots.push((o, into));
            }
        }
        true
    }

    /// Run to completion (or `budget` steps).
    pub fn run(&mut self, budget: u64) -> Outcome {
        let n = self.prog.len() / 8;
        let mut pc: usize = 0;
        let mut frames: Vec<Frame> = Vec::new();
        let mut cur_entry: usize = 0;
        loop {
            if pc >= n {
                return Outcome::Illegal("pc outside program", pc);
            }
            if self.steps >= budget {
                return Outcome::Budget;
            }
            self.steps += 1;
            self.pc_hash = (self.pc_hash ^ pc as u64).wrapping_mul(FNV_PRIME);
            if pc > self.max_pc {
                self.max_pc = pc;
            }
            if self.trace.len() < self.trace_cap {
                self.trace.push(pc as u32);
            }
            let ins = decode_at(self.prog, pc);
            let Some(info) = op_info(ins.opc) else {
                return Outcome::Illegal("unsupported opcode executed", pc);
            };
            self.executed[ins.opc as usize] += 1;
            if ins.dst > 10 || ins.src > 10 {
                return Outcome::Illegal("register index > 10", pc);
            }
            let d = ins.dst as usize;
            let s = ins.src as usize;
            let this_pc = pc;
            pc += 1;
            match info.shape {
                Shape::Lddw => {
                    if pc >= n {
                        return Outcome::Illegal("lddw without second half", this_pc);
                    }
                    let hi = decode_at(self.prog, pc);
                    pc += 1;
                    self.reg[d] = V::clean((ins.imm as u32 as u64) | ((hi.imm as u32 as u64) << 32));
                }
                Shape::AluImm | Shape::AluReg | Shape::Unary | Shape::Endian => {
                    let a = self.reg[d];
                    let b = match info.shape {
                        Shape::AluReg => self.reg[s],
                        _ => V::clean(ins.imm as i64 as u64),
                    };
                    self.reg[d] = alu(ins.opc, info, a, b, ins.imm);
                }
                Shape::LdAbs | Shape::LdInd => {
                    if ins.imm < 0 {
                        self.neg_ldabs = true;
                    }
                    let mut addr = self.pkt_base.wrapping_add(ins.imm as u32 as u64);
                    if info.shape == Shape::LdInd {
                        let sv = self.reg[s];
                        if sv.t != Taint::Clean {
                            return Outcome::OutOfClaim("ldind index tainted");
                        }
                        addr = addr.wrapping_add(sv.v);
                    }
                    match self.load(addr, info.width) {
                        Some(v) => self.reg[0] = v,
                        None => return Outcome::Oob { pc: this_pc, addr, width: info.width, store: false },
                    }
                }
                Shape::LdReg => {
                    let base = self.reg[s];
                    if !matches!(base.t, Taint::Clean | Taint::Rel(_)) {
                        return Outcome::OutOfClaim("load address tainted");
                    }
                    let addr = base.v.wrapping_add(ins.off as i64 as u64);
                    if self.crosses(base.t, addr, info.width) {
                        return Outcome::OutOfClaim("access reaches another region by address adjacency");
                    }
                    match self.load(addr, info.width) {
                        Some(v) => self.reg[d] = v,
                        None => return Outcome::Oob { pc: this_pc, addr, width: info.width, store: false },
                    }
                }
                Shape::StImm | Shape::StReg => {
                    let base = self.reg[d];
                    if !matches!(base.t, Taint::Clean | Taint::Rel(_)) {
                        return Outcome::OutOfClaim("store address tainted");
                    }
                    let addr = base.v.wrapping_add(ins.off as i64 as u64);
                    let val = if info.shape == Shape::StImm { V::clean(ins.imm as i64 as u64) } else { self.reg[s] };
                    if self.crosses(base.t, addr, info.width) {
                        return Outcome::OutOfClaim("access reaches another region by address adjacency");
                    }
                    if !self.store(addr, info.width, val) {
                        return Outcome::Oob { pc: this_pc, addr, width: info.width, store: true };
                    }
                }
                Shape::Xadd => {
                    let base = self.reg[d];
                    if !matches!(base.t, Taint::Clean | Taint::Rel(_)) {
                        return Outcome::OutOfClaim("xadd address tainted");
                    }
                    let addr = base.v.wrapping_add(ins.off as i64 as u64);
                    if self.crosses(base.t, addr, info.width) {
                        return Outcome::OutOfClaim("access reaches another region by address adjacency");
                    }
                    let Some(old) = self.load(addr, info.width) else {
                        return Outcome::Oob { pc: this_pc, addr, width: info.width, store: true };
                    };
                    if addr % info.width as u64 != 0 {
                        return Outcome::Misaligned { pc: this_pc };
                    }
                    let add = self.reg[s];
                    let mask = if info.width == 4 { 0xffff_ffffu64 } else { u64::MAX };
                    let nv = V { v: old.v.wrapping_add(add.v) & mask, t: join(old.t, if matches!(add.t, Taint::Rel(_)) { Taint::AddrDep } else { add.t }) };
                    self.store(addr, info.width, nv);
                    self.xadd_done += 1;
                }
                Shape::Ja => {
                    let t = this_pc as i64 + 1 + ins.off as i64;
                    if t < 0 || t as usize >= n {
                        return Outcome::Illegal("jump outside program", this_pc);
                    }
                    self.max_jump = self.max_jump.max((ins.off as i64).abs());
                    pc = t as usize;
                }
                Shape::JmpImm | Shape::JmpReg => {
                    let a = self.reg[d];
                    let b = if info.shape == Shape::JmpReg { self.reg[s] } else { V::clean(ins.imm as i64 as u64) };
                    // comparing two exact stack-relative values is address independent
                    let t = match (a.t, b.t) {
                        (Taint::Rel(x), Taint::Rel(y)) if x == y => Taint::Clean,
                        _ => join_cmp(a.t, b.t),
                    };
                    if t != Taint::Clean {
                        return Outcome::OutOfClaim(if t == Taint::Undef { "branch on undefined value" } else { "branch on raw address" });
                    }
                    let mut taken = cond(ins.opc >> 4, info.is64, a.v, b.v);
                    if self.alt_zext_unsigned_imm
                        && info.shape == Shape::JmpImm
                        && info.is64
                        && matches!(ins.opc >> 4, 1 | 2 | 3 | 5 | 10 | 11)
                    {
                        let alt = cond(ins.opc >> 4, true, a.v, ins.imm as u32 as u64);
                        if alt != taken {
                            if !self.alt_diverged.contains(&ins.opc) {
                                self.alt_diverged.push(ins.opc);
                            }
                            taken = alt;
                        }
                    }
                    if taken {
                        self.br_taken[ins.opc as usize] += 1;
                        let t = this_pc as i64 + 1 + ins.off as i64;
                        if t < 0 || t as usize >= n {
                            return Outcome::Illegal("jump outside program", this_pc);
                        }
                        self.max_jump = self.max_jump.max((ins.off as i64).abs());
                        pc = t as usize;
                    } else {
                        self.br_not[ins.opc as usize] += 1;
                    }
                }
                Shape::Call => match ins.src {
                    0 => {
                        let id = ins.imm as u32;
                        let args = [self.reg[1].v, self.reg[2].v, self.reg[3].v, self.reg[4].v, self.reg[5].v];
                        let arg_clean = [
                            self.reg[1].t == Taint::Clean,
                            self.reg[2].t == Taint::Clean,
                            self.reg[3].t == Taint::Clean,
                            self.reg[4].t == Taint::Clean,
                            self.reg[5].t == Taint::Clean,
                        ];
                        match (self.helper_fn)(id, args) {
                            None => return Outcome::UnknownHelper { pc: this_pc, id },
                            Some(r) => {
                                self.helper_log.push(HelperCall { pc: this_pc, id, args, arg_clean, depth: frames.len() });
                                let all_clean = arg_clean.iter().all(|c| *c);
                                self.reg[0] = V { v: r, t: if all_clean { Taint::Clean } else { Taint::Undef } };
                                if !self.alt_zext_unsigned_imm {
                                    for k in 1..=5 {
                                        self.reg[k].t = Taint::Undef;
                                    }
                                }
                            }
                        }
                    }
                    1 => {
                        if frames.len() >= 8 {
                            return Outcome::DepthExceeded { pc: this_pc };
                        }
                        let fs = (self.frame_size_of)(cur_entry);
                        frames.push(Frame {
                            ret_pc: pc,
                            saved: [self.reg[6], self.reg[7], self.reg[8], self.reg[9]],
                            frame_size: fs,
                            entry_pc: cur_entry,
                        });
                        self.max_depth = self.max_depth.max(frames.len());
                        self.reg[10].v = self.reg[10].v.wrapping_sub(fs);
                        let t = this_pc as i64 + 1 + ins.imm as i64;
                        if t < 0 || t as usize >= n {
                            return Outcome::Illegal("call outside program", this_pc);
                        }
                        pc = t as usize;
                        cur_entry = pc;
                    }
                    _ => return Outcome::Illegal("unsupported call kind", this_pc),
                },
                Shape::TailCall => return Outcome::Illegal("tail call", this_pc),
                Shape::Exit => {
                    if let Some(f) = frames.pop() {
                        self.reg[6] = f.saved[0];
                        self.reg[7] = f.saved[1];
                        self.reg[8] = f.saved[2];
                        self.reg[9] = f.saved[3];
                        self.reg[10].v = self.reg[10].v.wrapping_add(f.frame_size);
                        pc = f.ret_pc;
                        cur_entry = f.entry_pc;
                    } else {
                        let r0 = self.reg[0];
                        return match r0.t {
                            Taint::Clean => Outcome::Value(r0.v),
                            Taint::Undef => Outcome::OutOfClaim("result undefined"),
                            _ => Outcome::OutOfClaim("result is a raw address"),
                        };
                    }
                }
            }
            // lddw second halves must never be executed: detect by opcode 0 at fetch (handled by
            // op_info(0) = None above)
        }
    }

    /// true if every byte of the named region is clean
    pub fn region_clean(&self, idx: usize) -> bool {
        self.regions[idx].taint.iter().all(|t| *t == 0)
    }
}

fn join_cmp(a: Taint, b: Taint) -> Taint {
    use Taint::*;
    match (a, b) {
        (Clean, Clean) => Clean,
        (Undef, _) | (_, Undef) => Undef,
        _ => AddrDep,
    }
}

pub fn cond(op: u8, is64: bool, a: u64, b: u64) -> bool {
    let (ua, ub, sa, sb) = if is64 {
        (a, b, a as i64, b as i64)
    } else {
        (a as u32 as u64, b as u32 as u64, a as u32 as i32 as i64, b as u32 as i32 as i64)
    };
    match op {
        1 => ua == ub,
        2 => ua > ub,
        3 => ua >= ub,
        4 => ua & ub != 0,
        5 => ua != ub,
        6 => sa > sb,
        7 => sa >= sb,
        10 => ua < ub,
        11 => ua <= ub,
        12 => sa < sb,
        13 => sa <= sb,
        _ => false,
    }
}

/// ALU semantics. `a` = destination operand, `b` = source operand (register, or the immediate
/// sign-extended to 64 bits), `imm` = raw immediate (byte swaps).
pub fn alu(opc: u8, info: OpInfo, a: V, b: V, imm: i32) -> V {
    let op = opc >> 4;
    let is_reg = info.shape == Shape::AluReg;
    // taint
    let t = match (op, info.shape) {
        // mov: copies the source
        (11, _) => {
            if info.is64 {
                b.t
            } else if matches!(b.t, Taint::Rel(_)) {
                Taint::AddrDep
            } else {
                b.t
            }
        }
        (_, Shape::Unary) | (_, Shape::Endian) => {
            if matches!(a.t, Taint::Rel(_)) { Taint::AddrDep } else { a.t }
        }
        // 64-bit add/sub keep exact stack-relative pointers
        (0, _) if info.is64 => match (a.t, b.t) {
            (Taint::Rel(r), Taint::Clean) | (Taint::Clean, Taint::Rel(r)) => Taint::Rel(r),
            (x, y) => join(x, y),
        },
        (1, _) if info.is64 => match (a.t, b.t) {
            (Taint::Rel(r), Taint::Clean) => Taint::Rel(r),
            (Taint::Rel(x), Taint::Rel(y)) if x == y => Taint::Clean,
            (x, y) => join(x, y),
        },
        _ => join(a.t, b.t),
    };
    let _ = is_reg;
    let v = if info.is64 {
        let (x, y) = (a.v, b.v);
        match op {
            0 => x.wrapping_add(y),
            1 => x.wrapping_sub(y),
            2 => x.wrapping_mul(y),
            3 => {
                if y == 0 { 0 } else { x / y }
            }
            4 => x | y,
            5 => x & y,
            6 => x << (y & 63),
            7 => x >> (y & 63),
            8 => (x as i64).wrapping_neg() as u64,
            9 => {
                if y == 0 { x } else { x % y }
            }
            10 => x ^ y,
            11 => y,
            12 => ((x as i64) >> (y & 63)) as u64,
            _ => x,
        }
    } else if info.shape == Shape::Endian {
        let x = a.v;
        let be = opc & 0x08 != 0;
        match (imm, be) {
            (16, false) => x & 0xffff,
            (32, false) => x & 0xffff_ffff,
            (64, false) => x,
            (16, true) => (x as u16).swap_bytes() as u64,
            (32, true) => (x as u32).swap_bytes() as u64,
            (64, true) => x.swap_bytes(),
            _ => x,
        }
    } else {
        let (x, y) = (a.v as u32, b.v as u32);
        let r: u32 = match op {
            0 => x.wrapping_add(y),
            1 => x.wrapping_sub(y),
            2 => x.wrapping_mul(y),
            3 => {
                if y == 0 { 0 } else { x / y }
            }
            4 => x | y,
            5 => x & y,
            6 => x << (y & 31),
            7 => x >> (y & 31),
            8 => (x as i32).wrapping_neg() as u32,
            9 => {
                if y == 0 {
                    // "modulo by zero leaving the destination": the whole register is left alone
                    return V { v: a.v, t };
                } else {
                    x % y
                }
            }
            10 => x ^ y,
            11 => y,
            12 => ((x as i32) >> (y & 31)) as u32,
            _ => x,
        };
        r as u64
    };
    V { v, t }
}
