//! C07: eBPF-to-eBPF calls preserve the caller's frame and callee-saved registers.
//! Dedicated call-graph generator; oracle = reference machine frame semantics; interpreter checked
//! for value + pc trace + error outcomes, JIT for the folded value; the stack-usage calculator is
//! itself a monitor (it records every pc it is asked about).

use crate::diff::*;
use crate::engines::{Engine, Kind};
use crate::exec::{Family, CALC_LOG};
use crate::genp::{Builder, CalcSpec, Case};
use crate::isa::*;
use crate::report::Report;
use crate::util::Rng;
use crate::Args;
use serde_json::json;

const SUB64_REG_: u8 = SUB64_REG;

struct FnPlan {
    label: usize,
    level: usize,
    /// indices of callees (higher level)
    calls: Vec<usize>,
    recursive: bool,
}

/// Emits one function body. Convention: r1 = argument, r2 = caller's r10 (or 0 for main).
fn emit_fn(b: &mut Builder, rng: &mut Rng, plans: &[FnPlan], fi: usize, is_main: bool, helpers: &[(u32, usize)], use_slots: bool, rec_depth: i32) {
    let p = &plans[fi];
    b.place(p.label);
    // result accumulator r0; incorporate (caller r10 - own r10) = caller's frame size
    b.i(MOV64_IMM, 0, 0, 0, 17 + fi as i32);
    if !is_main {
        b.i(SUB64_REG_, 2, 10, 0, 0); // r2 = caller_r10 - r10  (address independent)
        b.i(MUL64_IMM, 0, 0, 0, 0x01000193);
        b.i(XOR64_REG, 0, 2, 0, 0);
        b.i(MUL64_IMM, 0, 0, 0, 0x01000193);
        b.i(XOR64_REG, 0, 1, 0, 0);
    }
    // scramble callee-saved registers with values specific to this function
    let tags: [u64; 4] = [rng.next(), rng.next(), rng.next(), rng.next()];
    b.lddw(6, tags[0]);
    b.lddw(7, tags[1]);
    b.lddw(8, tags[2]);
    b.lddw(9, tags[3]);
    let slot_tag = rng.next() as i32;
    if use_slots {
        b.i(STDW, 10, 0, -8, slot_tag);
        b.i(STDW, 10, 0, -16, slot_tag ^ 0x5555);
    }
    if p.recursive {
        // r9 holds the remaining depth (callee-saved: restored after the recursive call)
        // if r1 == 0 -> skip the recursive call
        let l_done = b.label();
        b.i(MOV64_REG, 9, 1, 0, 0);
        b.j(JEQ_IMM, 9, 0, 0, l_done);
        b.i(MOV64_REG, 1, 9, 0, 0);
        b.i(ADD64_IMM, 1, 0, 0, -1);
        b.i(MOV64_REG, 2, 10, 0, 0);
        b.i(MOV64_REG, 8, 10, 0, 0);
        b.i(MOV64_REG, 7, 0, 0, 0); // r0 must pass through the call in a callee-saved register
        b.call_label(p.label);
        b.i(SUB64_REG_, 8, 10, 0, 0); // r10 restored => 0
        b.i(MUL64_IMM, 7, 0, 0, 0x01000193);
        b.i(XOR64_REG, 7, 0, 0, 0);
        b.i(XOR64_REG, 7, 8, 0, 0);
        b.i(XOR64_REG, 7, 9, 0, 0);
        b.i(MOV64_REG, 0, 7, 0, 0);
        b.place(l_done);
        let _ = rec_depth;
    }
    for (ci, callee) in p.calls.iter().enumerate() {
        // optional helper call before (ids chosen to collide with displacements)
        if !helpers.is_empty() && rng.chance(1, 3) {
            let (id, _) = helpers[rng.below(helpers.len() as u64) as usize];
            b.i(MOV64_REG, 5, 0, 0, 0);
            for r in 1..=4u8 {
                b.i(MOV64_IMM, r, 0, 0, rng.interesting_i32().0);
            }
            b.i(CALL, 0, 0, 0, id as i32);
        }
        // arguments; r3..r5 hold values that must pass through call AND return untouched only if
        // the callee leaves them alone: the callee is free to change them, so fold what the
        // reference machine predicts (it models the callee exactly)
        b.i(MOV64_IMM, 1, 0, 0, (ci as i32 + 1) * 1000 + fi as i32);
        b.i(MOV64_REG, 2, 10, 0, 0);
        b.lddw(3, rng.next());
        b.lddw(4, rng.next());
        b.lddw(5, rng.next());
        // keep the accumulator in a callee-saved register across the call
        b.i(MOV64_REG, 6, 0, 0, 0);
        b.i(MOV64_REG, 7, 10, 0, 0);
        b.call_label(plans[*callee].label);
        // r0 = callee result; fold: accumulator (r6), r10 delta, r8, r9, r3..r5
        b.i(SUB64_REG_, 7, 10, 0, 0);
        b.i(MUL64_IMM, 6, 0, 0, 0x01000193);
        b.i(XOR64_REG, 6, 0, 0, 0);
        b.i(MUL64_IMM, 6, 0, 0, 0x01000193);
        b.i(XOR64_REG, 6, 7, 0, 0);
        b.i(XOR64_REG, 6, 8, 0, 0);
        b.i(MUL64_IMM, 6, 0, 0, 0x01000193);
        b.i(XOR64_REG, 6, 9, 0, 0);
        b.i(XOR64_REG, 6, 3, 0, 0);
        b.i(MUL64_IMM, 6, 0, 0, 0x01000193);
        b.i(XOR64_REG, 6, 4, 0, 0);
        b.i(XOR64_REG, 6, 5, 0, 0);
        b.i(MOV64_REG, 0, 6, 0, 0);
        b.lddw(6, tags[0]);
    }
    if use_slots {
        b.i(LDXDW, 3, 10, -8, 0);
        b.i(MUL64_IMM, 0, 0, 0, 0x01000193);
        b.i(XOR64_REG, 0, 3, 0, 0);
        b.i(LDXDW, 3, 10, -16, 0);
        b.i(MUL64_IMM, 0, 0, 0, 0x01000193);
        b.i(XOR64_REG, 0, 3, 0, 0);
    }
    // leave recognisable garbage in r1..r5: the caller folds r3..r5 after the return
    b.lddw(3, rng.next());
    b.lddw(5, rng.next());
    b.exit();
}

/// The entry point itself is the target of the program's only local calls: main calls itself
/// (entry pc 0 is then both "the program" and "a local function": one key in any table of entries).
/// r1 is 0 at entry on a no-data VM; the first activation turns it into the remaining depth.
/// Every activation records caller_r10 - own_r10 (the caller's frame size), keeps values in r8/r9
/// and in its own stack slot across the inner call, and folds them into r0.
pub fn gen_self_calling_main(rng: &mut Rng) -> (Case, usize) {
    let depth = rng.range(1, 9) as i32; // activations below the first one: 9 exceeds the limit of 8
    let slot: i16 = *rng.pick(&[-8i16, -16, -64, -8, -256]);
    let mut v: Vec<Insn> = Vec::new();
    v.push(Insn::new(JNE_IMM, 1, 0, 2, 0)); //  0: recursive entry -> 3
    v.push(Insn::new(MOV64_IMM, 1, 0, 0, depth + 1)); //  1
    v.push(Insn::new(MOV64_REG, 2, 10, 0, 0)); //  2: first activation: "caller's r10" = own r10
    v.push(Insn::new(MOV64_REG, 8, 2, 0, 0)); //  3
    v.push(Insn::new(SUB64_REG_, 8, 10, 0, 0)); //  4: r8 = caller_r10 - r10
    v.push(Insn::new(MOV64_REG, 9, 1, 0, 0)); //  5
    v.push(Insn::new(STXDW, 10, 1, slot, 0)); //  6: own slot
    v.push(Insn::new(MOV64_IMM, 0, 0, 0, rng.next() as i32)); //  7
    v.push(Insn::new(JEQ_IMM, 1, 0, 3, 1)); //  8: innermost activation -> 12
    v.push(Insn::new(ADD64_IMM, 1, 0, 0, -1)); //  9
    v.push(Insn::new(MOV64_REG, 2, 10, 0, 0)); // 10
    v.push(Insn::new(CALL, 0, 1, 0, -12)); // 11: call pc 0
    v.push(Insn::new(LDXDW, 3, 10, slot, 0)); // 12
    v.push(Insn::new(MUL64_IMM, 0, 0, 0, 0x01000193)); // 13
    v.push(Insn::new(XOR64_REG, 0, 8, 0, 0)); // 14
    v.push(Insn::new(MUL64_IMM, 0, 0, 0, 0x01000193)); // 15
    v.push(Insn::new(XOR64_REG, 0, 9, 0, 0)); // 16
    v.push(Insn::new(SUB64_REG_, 3, 9, 0, 0)); // 17: slot still holds this activation's r1
    v.push(Insn::new(ADD64_REG, 0, 3, 0, 0)); // 18
    v.push(Insn::new(EXIT, 0, 0, 0, 0)); // 19
    let mut c = Case::new(Kind::NoData, encode_prog(&v), "self-calling-main");
    c.calc = match rng.below(6) {
        0 => CalcSpec::None,
        1 => CalcSpec::Table(rng.below(16) as u16),
        _ => CalcSpec::Const(*rng.pick(&[0u16, 8, 16, 32, 48, 56, 64, 128, 200, 256, 264, 384, 512])),
    };
    (c, depth as usize)
}

pub fn gen_callgraph(rng: &mut Rng) -> (Case, usize) {
    if rng.chance(1, 24) {
        return gen_self_calling_main(rng);
    }
    loop {
        let nf = rng.range(1, 10) as usize; // functions besides main
        let want_depth = rng.range(0, 10) as usize; // chain length
        let mut b = Builder::new();
        let mut plans: Vec<FnPlan> = Vec::new();
        for i in 0..=nf {
            let l = b.label();
            plans.push(FnPlan { label: l, level: 0, calls: Vec::new(), recursive: false });
            let _ = i;
        }
        // levels: a chain of `want_depth` functions plus random extra edges to higher levels
        for i in 1..=nf {
            plans[i].level = 1 + (i - 1) % want_depth.max(1);
        }
        for i in 0..=nf {
            let lvl = plans[i].level;
            if lvl >= want_depth && i != 0 {
                continue;
            }
            let cands: Vec<usize> = (1..=nf).filter(|j| plans[*j].level == lvl + 1).collect();
            if cands.is_empty() {
                continue;
            }
            let k = rng.range(1, 2);
            for _ in 0..k {
                let c = *rng.pick(&cands);
                plans[i].calls.push(c);
            }
        }
        if want_depth == 0 {
            plans[0].calls.clear();
        }
        // sometimes a self-recursive function bounded by a counter, depth 0..10
        let rec_depth = if rng.chance(1, 4) { rng.range(0, 10) as i32 } else { -1 };
        if rec_depth >= 0 && nf >= 1 {
            let r = nf; // last function
            plans[r].recursive = true;
            plans[r].calls.clear();
        }
        let calc = match rng.below(11) {
            10 => CalcSpec::Const(*rng.pick(&[16u16, 24, 120, 127, 128, 129, 136, 200, 248, 255, 264, 504])),
            0 => CalcSpec::Const(0),
            1 => CalcSpec::Const(8),
            2 => CalcSpec::Const(64),
            3 => CalcSpec::Const(256),
            4 => CalcSpec::Const(512),
            5 => CalcSpec::Const(65535),
            6 | 7 => CalcSpec::Table(rng.below(16) as u16),
            _ => CalcSpec::None,
        };
        let mut helpers: Vec<(u32, usize)> = Vec::new();
        if rng.chance(1, 2) {
            for _ in 0..rng.range(1, 3) {
                // small ids: equal to plausible call displacements
                let id = rng.range(0, 40) as u32;
                if !helpers.iter().any(|(i, _)| *i == id) {
                    helpers.push((id, rng.below(8) as usize));
                }
            }
        }
        let use_slots = rng.chance(3, 4);
        // layout: main first, the others in random order (=> forward and backward displacements)
        let mut order: Vec<usize> = (1..=nf).collect();
        for i in (1..order.len()).rev() {
            let j = rng.below(i as u64 + 1) as usize;
            order.swap(i, j);
        }
        // main: when a recursive function exists, main calls it with the counter
        if rec_depth >= 0 && nf >= 1 {
            // emitted inside emit_fn through an extra call site: add as a plain call with r1 = depth
        }
        emit_fn(&mut b, rng, &plans, 0, true, &helpers, use_slots, rec_depth);
        for fi in order {
            emit_fn(&mut b, rng, &plans, fi, false, &helpers, use_slots, rec_depth);
        }
        let Some(mut prog) = b.assemble() else { continue };
        // recursion entry: patch main's first argument for calls to the recursive function is
        // (ci+1)*1000 + fi which is far larger than 8: use a dedicated tiny driver instead
        if rec_depth >= 0 && nf >= 1 {
            let mut b2 = Builder::new();
            let mut plans2: Vec<FnPlan> = vec![FnPlan { label: b2.label(), level: 0, calls: vec![], recursive: false }, FnPlan { label: b2.label(), level: 1, calls: vec![], recursive: true }];
            // main: r1 = depth; r2 = r10; call R; fold r10 delta
            b2.place(plans2[0].label);
            b2.i(MOV64_IMM, 1, 0, 0, rec_depth);
            b2.i(MOV64_REG, 2, 10, 0, 0);
            b2.i(MOV64_REG, 7, 10, 0, 0);
            b2.lddw(8, rng.next());
            b2.call_label(plans2[1].label);
            b2.i(SUB64_REG_, 7, 10, 0, 0);
            b2.i(XOR64_REG, 0, 7, 0, 0);
            b2.i(XOR64_REG, 0, 8, 0, 0);
            b2.exit();
            plans2[0].label = usize::MAX; // already placed
            emit_fn(&mut b2, rng, &plans2, 1, false, &helpers, use_slots, rec_depth);
            if let Some(p2) = b2.assemble() {
                if rng.chance(1, 2) {
                    prog = p2;
                }
            }
        }
        // all four VM kinds (each wrapper forwards calculators, helpers and the stack on its own)
        let kind = *rng.pick(&[Kind::NoData, Kind::NoData, Kind::Raw, Kind::Mbuff, Kind::Fixed]);
        let mut c = Case::new(kind, prog, "callgraph");
        if kind != Kind::NoData {
            c.pkt = rng.bytes(16);
        }
        if kind == Kind::Mbuff {
            c.mbuff = vec![0; 16];
        }
        c.calc = calc;
        c.helpers = helpers;
        return (c, want_depth);
    }
}

/// pcs that are function entries: 0 and every local-call target
fn entries(prog: &[u8]) -> Vec<usize> {
    let mut v = vec![0usize];
    let n = prog.len() / 8;
    let mut pc = 0;
    while pc < n {
        let i = decode_at(prog, pc);
        if i.opc == LDDW {
            pc += 2;
            continue;
        }
        if i.opc == CALL && i.src == 1 {
            let t = pc as i64 + 1 + i.imm as i64;
            if t >= 0 && (t as usize) < n && !v.contains(&(t as usize)) {
                v.push(t as usize);
            }
        }
        pc += 1;
    }
    v
}

pub fn run(a: &Args, rep: &mut Report) {
    let mut rng = Rng::derive(a.seed, a.shard, 7);
    let q = a.tier == "quick";
    let n = ((if q { 160_000.0 } else { 8_000_000.0 }) * a.scale) as u64 / a.nshards;
    let mut batch: Vec<Pre> = Vec::new();
    let mut par_batches = 0u32;
    let with_jit = cfg!(any(feature = "std", feature = "stdlite"));
    // far local calls (more than 32767 instructions away) with nested calls and calculators
    let far: Vec<Case> = if cfg!(miri) || a.shard >= 6 { vec![] } else { [33_000usize, 70_000].iter().map(|n| crate::genp::gen_long(&mut rng, *n + a.shard as usize * 17, 4)).collect() };
    let nfar = far.len() as u64;
    let mut far = far.into_iter();
    for k in 0..n + nfar {
        let (c, depth) = match if k >= n { far.next() } else { None } {
            Some(c) => (c, 2),
            None => gen_callgraph(&mut rng),
        };
        rep.set("calculators", format!("{:?}", c.calc));
        rep.set("planned_depths", format!("{depth}"));
        if let Ok(mut l) = CALC_LOG.lock() {
            l.clear();
        }
        let ents = entries(&c.prog);
        let has_calc = c.calc != CalcSpec::None;
        let p = pre_run(c, format!("cg#{k}"), 400_000);
        // calculator monitor: every pc it was asked about must be a function entry
        if has_calc {
            let asked: Vec<usize> = CALC_LOG.lock().map(|l| l.clone()).unwrap_or_default();
            rep.add("calculator_queries", asked.len() as u64);
            if let Some(bad) = asked.iter().find(|pc| !ents.contains(pc)) {
                rep.violation("C07:calculator-asked-about-non-entry", format!("the stack-usage calculator was asked about pc {bad}, which is not a function entry (entries: {:?})", ents), witness(&p, json!({"asked": asked})));
            }
            for e in &ents {
                if !asked.contains(e) {
                    rep.violation("C07:calculator-not-asked-about-entry", format!("function entry {e} was never submitted to the stack-usage calculator"), witness(&p, json!({"asked": asked})));
                    break;
                }
            }
        }
        rep.max("max_depth_executed", p.rr.max_depth as u64);
        if p.case.class == "self-calling-main" {
            rep.set("self_calling_main_outcomes", format!("{:?}:depth{}:{}", p.case.calc, depth, match &p.rr.outcome { crate::refvm::Outcome::Value(_) => "value".to_string(), o => format!("{o:?}").split(|ch: char| !ch.is_alphanumeric()).next().unwrap_or("").to_string() }));
            rep.count("self_calling_main_programs");
        }
        batch.push(p);
        if batch.len() >= 256 || k + 1 == n + nfar {
            check_interp(rep, "C07", &batch, true);
            // call graphs on 8 threads at once, each on its own VM: frames and depth limits are per execution
            par_batches += 1;
            if par_batches <= 3 * crate::mon_par::par_mult().max(1) as u32 {
                crate::mon_par::exec_par(rep, "C07", &batch, if par_batches == 2 && with_jit { Engine::Jit } else { Engine::Interp });
            }
            if with_jit {
                // evaluations were already counted by check_interp: use a scratch report for counts
                let before = rep.get("evaluations");
                check_compiled(rep, "C07", &batch, Engine::Jit, Family::Hostile);
                let after = rep.get("evaluations");
                rep.counters.insert("evaluations".into(), before);
                rep.add("jit_compared_batches_cases", after - before);
            }
            batch.clear();
        }
    }
}
