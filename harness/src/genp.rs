//! Seeded program/input generators shared by the execution monitors.

use crate::engines::Kind;
use crate::isa::*;
use crate::util::{Rng, hex, unhex};
use serde_json::{Value, json};

#[derive(Clone, Debug, PartialEq, Eq)]
pub enum CalcSpec {
    None,
    Const(u16),
    /// value depends on the function entry pc
    Table(u16),
}

impl CalcSpec {
    pub fn frame(&self, entry_pc: usize) -> u64 {
        match self {
            CalcSpec::None => 256,
            CalcSpec::Const(c) => *c as u64,
            CalcSpec::Table(k) => table_value(*k, entry_pc) as u64,
        }
    }
    pub fn to_json(&self) -> Value {
        match self {
            CalcSpec::None => json!("none"),
            CalcSpec::Const(c) => json!({"const": c}),
            CalcSpec::Table(k) => json!({"table": k}),
        }
    }
    pub fn from_json(v: &Value) -> CalcSpec {
        if let Some(c) = v.get("const") {
            CalcSpec::Const(c.as_u64().unwrap_or(0) as u16)
        } else if let Some(k) = v.get("table") {
            CalcSpec::Table(k.as_u64().unwrap_or(0) as u16)
        } else {
            CalcSpec::None
        }
    }
}

/// per-entry frame size for CalcSpec::Table: a multiple of 8 in [8, 128], distinct for nearby pcs
pub fn table_value(k: u16, pc: usize) -> u16 {
    (8 * (1 + ((pc as u64).wrapping_mul(7).wrapping_add(k as u64) % 16))) as u16
}

#[derive(Clone, Debug)]
pub struct Case {
    pub kind: Kind,
    pub prog: Vec<u8>,
    pub pkt: Vec<u8>,
    /// caller-provided metadata buffer (Kind::Mbuff). Bytes 0..8 / 8..16 are overwritten by the
    /// harness with the packet start / end addresses when `mbuff_ptrs` is set.
    pub mbuff: Vec<u8>,
    pub mbuff_ptrs: bool,
    pub offs: (usize, usize),
    /// (helper id, index of the harness helper function)
    pub helpers: Vec<(u32, usize)>,
    pub calc: CalcSpec,
    pub class: String,
    /// place the packet so that its END (true) or START (false) touches the guard page
    pub end_aligned: bool,
    /// placement variants: the program is loaded from a copy that starts `prog_shift` bytes into an
    /// allocation (an odd / unaligned address for 1..7); the metadata buffer is mapped before the
    /// packet (the other order in the address space)
    pub prog_shift: u8,
    pub mbuff_first: bool,
    /// 0 = separate mappings; 1 / 2 = metadata buffer directly below / above the packet
    pub adjacent: u8,
    /// backing store of the shifted copy (filled by `with_placement`)
    pub shifted: Vec<u8>,
}

impl Case {
    pub fn new(kind: Kind, prog: Vec<u8>, class: &str) -> Case {
        // exact-size allocation: a read or write past the last instruction leaves the allocation
        // (visible to ASan, valgrind and Miri) instead of landing in the Vec's spare capacity
        let mut prog = prog;
        prog.shrink_to_fit();
        Case {
            kind,
            prog,
            pkt: Vec::new(),
            mbuff: Vec::new(),
            mbuff_ptrs: true,
            offs: (0, 8),
            helpers: Vec::new(),
            calc: CalcSpec::None,
            class: class.to_string(),
            end_aligned: true,
            prog_shift: 0,
            mbuff_first: false,
            adjacent: 0,
            shifted: Vec::new(),
        }
    }
    /// the bytes the VM is given: the program itself, or its copy at an unaligned address
    pub fn prog_slice(&self) -> &[u8] {
        if self.prog_shift == 0 || self.shifted.len() != self.prog.len() + self.prog_shift as usize { &self.prog } else { &self.shifted[self.prog_shift as usize..] }
    }
    fn shifted_by(mut self, k: u8) -> Case {
        if k > 0 && k < 8 {
            self.prog_shift = k;
            let mut st = vec![0xEEu8; k as usize];
            st.extend_from_slice(&self.prog);
            st.shrink_to_fit();
            self.shifted = st;
        }
        self
    }
    /// the same case in another placement: packet at the other end of its mapping, metadata buffer
    /// and packet in the other order, program bytes at an unaligned address
    pub fn with_placement(&self, k: u8) -> Case {
        let mut c = self.clone();
        c.end_aligned = !self.end_aligned;
        c.mbuff_first = !self.mbuff_first;
        c.adjacent = [1u8, 2, 0][(k / 7 % 3) as usize];
        c.prog_shift = 1 + k % 7;
        let mut st = vec![0xEEu8; c.prog_shift as usize];
        st.extend_from_slice(&self.prog);
        st.shrink_to_fit();
        c.shifted = st;
        c.class = format!("{}+placed", self.class);
        c
    }
    pub fn hash(&self) -> u64 {
        let mut h = crate::util::fnv(&self.prog);
        h = crate::util::fnv_mix(h, crate::util::fnv(&self.pkt));
        h = crate::util::fnv_mix(h, crate::util::fnv(&self.mbuff));
        h = crate::util::fnv_mix(h, self.kind as u64);
        h = crate::util::fnv_mix(h, (self.offs.0 as u64) << 32 | self.offs.1 as u64);
        for (id, j) in &self.helpers {
            h = crate::util::fnv_mix(h, (*id as u64) << 8 | *j as u64);
        }
        h = crate::util::fnv_mix(h, crate::util::fnv(format!("{:?}", self.calc).as_bytes()));
        h
    }
    pub fn to_json(&self) -> Value {
        json!({
            "kind": self.kind.name(),
            "prog": hex(&self.prog),
            "pkt": hex(&self.pkt),
            "mbuff": hex(&self.mbuff),
            "mbuff_ptrs": self.mbuff_ptrs,
            "offs": [self.offs.0, self.offs.1],
            "helpers": self.helpers.iter().map(|(a, b)| json!([a, b])).collect::<Vec<_>>(),
            "calc": self.calc.to_json(),
            "class": self.class,
            "end_aligned": self.end_aligned,
            "mbuff_first": self.mbuff_first,
            "adjacent": self.adjacent,
            "prog_shift": self.prog_shift,
            "disasm": disasm_lossy(&self.prog, 64),
        })
    }
    pub fn from_json(v: &Value) -> Case {
        let s = |k: &str| v.get(k).and_then(|x| x.as_str()).unwrap_or("").to_string();
        Case {
            kind: Kind::from_name(&s("kind")),
            prog: unhex(&s("prog")),
            pkt: unhex(&s("pkt")),
            mbuff: unhex(&s("mbuff")),
            mbuff_ptrs: v.get("mbuff_ptrs").and_then(|x| x.as_bool()).unwrap_or(true),
            offs: (
                v["offs"][0].as_u64().unwrap_or(0) as usize,
                v["offs"][1].as_u64().unwrap_or(8) as usize,
            ),
            helpers: v["helpers"]
                .as_array()
                .map(|a| a.iter().map(|p| (p[0].as_u64().unwrap_or(0) as u32, p[1].as_u64().unwrap_or(0) as usize)).collect())
                .unwrap_or_default(),
            calc: CalcSpec::from_json(&v["calc"]),
            class: s("class"),
            end_aligned: v.get("end_aligned").and_then(|x| x.as_bool()).unwrap_or(true),
            prog_shift: 0,
            mbuff_first: v.get("mbuff_first").and_then(|x| x.as_bool()).unwrap_or(false),
            adjacent: v.get("adjacent").and_then(|x| x.as_u64()).unwrap_or(0) as u8,
            shifted: Vec::new(),
        }
        .shifted_by(v.get("prog_shift").and_then(|x| x.as_u64()).unwrap_or(0) as u8)
    }
}

/// Human-readable listing from the harness' own table (for witnesses; not the code under test).
pub fn disasm_lossy(prog: &[u8], max: usize) -> Vec<String> {
    let mut out = Vec::new();
    let n = prog.len() / 8;
    let mut pc = 0;
    while pc < n && out.len() < max {
        let i = decode_at(prog, pc);
        let m = mnemonic(i.opc, i.src).unwrap_or_else(|| format!("op{:#04x}", i.opc));
        if i.opc == LDDW && pc + 1 < n {
            let hi = decode_at(prog, pc + 1);
            out.push(format!("{pc}: lddw r{}, {:#x}", i.dst, (i.imm as u32 as u64) | ((hi.imm as u32 as u64) << 32)));
            pc += 2;
            continue;
        }
        out.push(format!("{pc}: {m} dst=r{} src=r{} off={} imm={:#x}", i.dst, i.src, i.off, i.imm));
        pc += 1;
    }
    if pc < n {
        out.push(format!("... ({} instructions total)", n));
    }
    out
}

// ---------------------------------------------------------------------------------------------
// Program builder with labels

#[derive(Clone, Debug)]
pub enum Item {
    I(Insn),
    Lddw(u8, u64),
    /// jump-class instruction whose offset is the distance to a label
    J { opc: u8, dst: u8, src: u8, imm: i32, label: usize },
    /// local call to a label
    CallL(usize),
    Label(usize),
}

#[derive(Default)]
pub struct Builder {
    pub items: Vec<Item>,
    next_label: usize,
}

impl Builder {
    pub fn new() -> Builder {
        Builder::default()
    }
    pub fn label(&mut self) -> usize {
        self.next_label += 1;
        self.next_label - 1
    }
    pub fn place(&mut self, l: usize) {
        self.items.push(Item::Label(l));
    }
    pub fn i(&mut self, opc: u8, dst: u8, src: u8, off: i16, imm: i32) {
        self.items.push(Item::I(Insn::new(opc, dst, src, off, imm)));
    }
    pub fn lddw(&mut self, dst: u8, v: u64) {
        self.items.push(Item::Lddw(dst, v));
    }
    pub fn j(&mut self, opc: u8, dst: u8, src: u8, imm: i32, label: usize) {
        self.items.push(Item::J { opc, dst, src, imm, label });
    }
    pub fn call_label(&mut self, l: usize) {
        self.items.push(Item::CallL(l));
    }
    pub fn exit(&mut self) {
        self.i(EXIT, 0, 0, 0, 0);
    }
    /// pc of every label after layout
    fn layout(&self) -> (Vec<usize>, usize) {
        let mut lab = vec![usize::MAX; self.next_label];
        let mut pc = 0;
        for it in &self.items {
            match it {
                Item::Label(l) => lab[*l] = pc,
                Item::Lddw(..) => pc += 2,
                _ => pc += 1,
            }
        }
        (lab, pc)
    }
    /// None if an offset does not fit or would be -1 (self jump, refused by the verifier)
    pub fn assemble(&self) -> Option<Vec<u8>> {
        let (lab, _) = self.layout();
        let mut out: Vec<Insn> = Vec::new();
        let mut pc = 0usize;
        for it in &self.items {
            match it {
                Item::Label(_) => {}
                Item::I(i) => {
                    out.push(*i);
                    pc += 1;
                }
                Item::Lddw(d, v) => {
                    out.push(Insn::new(LDDW, *d, 0, 0, *v as u32 as i32));
                    out.push(Insn::new(0, 0, 0, 0, (*v >> 32) as u32 as i32));
                    pc += 2;
                }
                Item::J { opc, dst, src, imm, label } => {
                    let t = lab[*label] as i64;
                    let off = t - (pc as i64 + 1);
                    if off == -1 || off < i16::MIN as i64 || off > i16::MAX as i64 {
                        return None;
                    }
                    out.push(Insn::new(*opc, *dst, *src, off as i16, *imm));
                    pc += 1;
                }
                Item::CallL(l) => {
                    let t = lab[*l] as i64;
                    let d = t - (pc as i64 + 1);
                    out.push(Insn::new(CALL, 0, 1, 0, d as i32));
                    pc += 1;
                }
            }
        }
        Some(encode_prog(&out))
    }
    pub fn label_pcs(&self) -> Vec<usize> {
        self.layout().0
    }
}

// ---------------------------------------------------------------------------------------------
// opcode lists

pub fn alu_opcodes() -> Vec<u8> {
    all_supported_opcodes()
        .into_iter()
        .filter(|o| matches!(op_info(*o).unwrap().shape, Shape::AluImm | Shape::AluReg | Shape::Unary | Shape::Endian))
        .collect()
}
pub fn jcond_opcodes() -> Vec<u8> {
    all_supported_opcodes().into_iter().filter(|o| matches!(op_info(*o).unwrap().shape, Shape::JmpImm | Shape::JmpReg)).collect()
}
pub fn mem_opcodes(shape: Shape) -> Vec<u8> {
    all_supported_opcodes().into_iter().filter(|o| op_info(*o).unwrap().shape == shape).collect()
}

fn endian_imm(rng: &mut Rng) -> i32 {
    *rng.pick(&[16, 32, 64])
}

/// Randomise the fields each instruction does NOT use (within what the verifier admits): engines
/// must ignore them.
pub fn fuzz_unused_fields(prog: &mut [u8], rng: &mut Rng) {
    let n = prog.len() / 8;
    let mut pc = 0;
    while pc < n {
        let mut i = decode_at(prog, pc);
        let Some(info) = op_info(i.opc) else {
            pc += 1;
            continue;
        };
        let (ud, us, uo, ui) = used_fields(info.shape);
        if !ud && rng.chance(1, 2) {
            i.dst = rng.below(10) as u8;
        }
        if !us && rng.chance(1, 2) {
            i.src = rng.below(11) as u8;
        }
        if !uo && rng.chance(1, 2) {
            i.off = rng.interesting_i16().0;
        }
        if !ui && info.shape != Shape::Xadd && rng.chance(1, 2) {
            i.imm = rng.interesting_i32().0;
        }
        prog[pc * 8..pc * 8 + 8].copy_from_slice(&i.bytes());
        if i.opc == LDDW && pc + 1 < n {
            // second half: only the opcode (0) and the immediate matter
            let hi = decode_at(prog, pc + 1);
            let h = Insn::new(0, rng.below(16) as u8, rng.below(16) as u8, rng.next() as i16, hi.imm);
            prog[(pc + 1) * 8..(pc + 1) * 8 + 8].copy_from_slice(&h.bytes());
            pc += 2;
        } else {
            pc += 1;
        }
    }
}

// ---------------------------------------------------------------------------------------------
// G-micro: one instruction under test per program, systematic over opcode x (dst, src)

pub struct MicroInfo {
    pub opc: u8,
    pub dst: u8,
    pub src: u8,
    pub cls_a: &'static str,
    pub cls_b: &'static str,
    pub template: &'static str,
}

fn pkt_for(rng: &mut Rng) -> Vec<u8> {
    let len = *rng.pick(&[8usize, 9, 16, 17, 24, 64, 100]);
    rng.bytes(len)
}

/// Generate micro case number `idx` (idx selects opcode and register pair; operands are random
/// boundary-class values).
pub fn gen_micro(rng: &mut Rng, idx: u64) -> (Case, MicroInfo) {
    let ops: Vec<u8> = all_supported_opcodes().into_iter().filter(|o| *o != TAIL_CALL).collect();
    let opc = ops[(idx % ops.len() as u64) as usize];
    let pair = (idx / ops.len() as u64) % 110;
    let mut dst = (pair % 10) as u8;
    let mut src = (pair / 10) as u8; // 0..=10
    let info = op_info(opc).unwrap();
    let (a, cls_a) = rng.interesting_u64();
    let (mut bval, mut cls_b) = rng.interesting_u64();
    let (mut imm, cls_i) = rng.interesting_i32();
    let mut b = Builder::new();
    let mut kind = Kind::NoData;
    let mut pkt = Vec::new();
    let mut helpers = Vec::new();
    let mut template = "alu";
    let mut fixed_overlap: Option<(usize, usize)> = None;
    match info.shape {
        Shape::AluImm | Shape::AluReg | Shape::Unary | Shape::Endian => {
            if info.shape == Shape::Endian {
                imm = endian_imm(rng);
            }
            b.lddw(dst, a);
            if info.shape == Shape::AluReg {
                if src != dst && src != 10 {
                    b.lddw(src, bval);
                }
            } else {
                cls_b = cls_i;
                src = if rng.chance(1, 8) { src.min(10) } else { 0 };
            }
            b.i(opc, dst, src, if rng.chance(1, 16) { rng.next() as i16 } else { 0 }, imm);
            if dst != 0 {
                b.i(MOV64_REG, 0, dst, 0, 0);
            }
            b.exit();
        }
        Shape::Lddw => {
            template = "lddw";
            b.lddw(dst, a);
            if dst != 0 {
                b.i(MOV64_REG, 0, dst, 0, 0);
            }
            b.exit();
        }
        Shape::JmpImm | Shape::JmpReg | Shape::Ja => {
            // operands straddling the condition
            if rng.chance(1, 2) {
                let delta = *rng.pick(&[0u64, 1, u64::MAX, 2, 0x1_0000_0000, 0x8000_0000, 0xffff_ffff_0000_0000]);
                bval = a.wrapping_add(delta);
                cls_b = "a+delta";
                if info.shape == Shape::JmpImm {
                    // make the immediate relate to a
                    imm = bval as i32;
                    cls_b = "imm~a";
                }
            } else if info.shape == Shape::JmpImm {
                cls_b = cls_i;
            }
            if src == 10 {
                src = 9;
            }
            let rr = (0..10u8).find(|r| *r != dst && *r != src).unwrap();
            let is_ja = info.shape == Shape::Ja;
            let (d, s) = if is_ja { (0, 0) } else { (dst, if info.shape == Shape::JmpReg { src } else { 0 }) };
            if is_ja {
                dst = 0;
                src = 0;
            }
            b.lddw(dst, a);
            if info.shape == Shape::JmpReg && src != dst {
                b.lddw(src, bval);
            }
            let filler = *rng.pick(&[0usize, 0, 1, 5, 40, 130, 300]);
            let l_taken = b.label();
            let l_end = b.label();
            if rng.chance(1, 2) {
                template = "jmp-fwd";
                b.j(opc, d, s, imm, l_taken);
                b.i(MOV64_IMM, rr, 0, 0, 10);
                for k in 0..filler {
                    b.i(ADD64_IMM, rr, 0, 0, k as i32 + 1);
                }
                b.j(JA, 0, 0, 0, l_end);
                b.place(l_taken);
                b.i(MOV64_IMM, rr, 0, 0, 20);
                b.place(l_end);
            } else {
                template = "jmp-back";
                let l_j = b.label();
                b.j(JA, 0, 0, 0, l_j);
                b.place(l_taken);
                b.i(MOV64_IMM, rr, 0, 0, 20);
                b.j(JA, 0, 0, 0, l_end);
                for k in 0..filler {
                    b.i(ADD64_IMM, rr, 0, 0, k as i32 + 1);
                }
                b.place(l_j);
                b.j(opc, d, s, imm, l_taken);
                b.i(MOV64_IMM, rr, 0, 0, 10);
                b.place(l_end);
            }
            b.i(MOV64_REG, 0, rr, 0, 0);
            b.exit();
        }
        Shape::LdReg if opc == LDXW && rng.chance(1, 4) => {
            // fixed-metadata VM whose two 8-byte slots OVERLAP (offsets 4 apart, like the 32-bit
            // __sk_buff fields): reading both as 32-bit values and subtracting gives the packet
            // length, provided every engine fills the slots in the same order as the interpreter
            template = "fixed-overlap";
            kind = Kind::Fixed;
            pkt = pkt_for(rng);
            let a = *rng.pick(&[0i16, 8, 20, 0x4c, 100]);
            b.i(LDXW, 2, 1, a, 0);
            b.i(LDXW, 0, 1, a + 4, 0);
            b.i(0x1c, 0, 2, 0, 0); // sub32 r0, r2
            b.exit();
            dst = 0;
            src = 1;
            fixed_overlap = Some((a as usize, a as usize + 4));
        }
        Shape::LdReg | Shape::StImm | Shape::StReg | Shape::Xadd => {
            let w = info.width as i64;
            let is_load = info.shape == Shape::LdReg;
            // base register: src for loads, dst for stores
            let use_stack = rng.chance(1, 3);
            let (off, _) = rng.interesting_i16();
            let (basereg, valreg) = if is_load { (src, dst) } else { (dst, src) };
            let basereg = if basereg == 10 && !use_stack { 9 } else { basereg };
            let mut valreg = valreg;
            if !is_load && valreg == 10 {
                valreg = 8;
            }
            if use_stack {
                template = "mem-stack";
                kind = Kind::NoData;
                // initialise the whole 64-byte window we may touch
                for k in 1..=8 {
                    b.lddw(0, rng.next());
                    b.i(STXDW, 10, 0, -8 * k, 0);
                }
                let mut t = -(rng.range(w, 64)); // target offset from r10, in [-64, -w]
                if info.shape == Shape::Xadd {
                    t &= !(w - 1);
                }
                if basereg == 10 {
                    // offset must carry everything
                    emit_mem_op(&mut b, rng, opc, info, 10, valreg, t as i16, imm, bval, is_load);
                } else {
                    b.i(MOV64_REG, basereg, 10, 0, 0);
                    b.i(ADD64_IMM, basereg, 0, 0, (t - off as i64) as i32);
                    emit_mem_op(&mut b, rng, opc, info, basereg, valreg, off, imm, bval, is_load);
                }
                // read back the window
                if is_load {
                    b.i(MOV64_REG, 0, valreg, 0, 0);
                } else {
                    b.i(MOV64_IMM, 0, 0, 0, 0);
                    for k in 1..=8 {
                        b.i(LDXDW, 1, 10, -8 * k, 0);
                        b.i(XOR64_REG, 0, 1, 0, 0);
                        b.i(MUL64_IMM, 0, 0, 0, 31);
                    }
                }
                b.exit();
            } else {
                template = "mem-pkt";
                kind = Kind::Raw;
                pkt = pkt_for(rng);
                let mut t = rng.range(0, pkt.len() as i64 - w);
                if info.shape == Shape::Xadd {
                    t &= !(w - 1);
                }
                // r1 holds the packet address
                if basereg != 1 {
                    b.i(MOV64_REG, basereg, 1, 0, 0);
                }
                b.i(ADD64_IMM, basereg, 0, 0, (t - off as i64) as i32);
                emit_mem_op(&mut b, rng, opc, info, basereg, valreg, off, imm, bval, is_load);
                if is_load {
                    b.i(MOV64_REG, 0, valreg, 0, 0);
                } else {
                    b.i(MOV64_IMM, 0, 0, 0, 0);
                }
                b.exit();
            }
            dst = if is_load { valreg } else { basereg };
            src = if is_load { basereg } else { valreg };
        }
        Shape::LdAbs | Shape::LdInd => {
            template = "ldabs";
            kind = *rng.pick(&[Kind::Raw, Kind::Raw, Kind::Mbuff, Kind::Fixed]);
            pkt = pkt_for(rng);
            let w = info.width as i64;
            let t = rng.range(0, pkt.len() as i64 - w);
            if kind == Kind::Raw && rng.chance(1, 3) {
                // load - store to the same bytes - identical load again: the second load must see
                // the store (a compiler must not reuse the first load)
                template = "ld-st-ld";
                let is_abs = info.shape == Shape::LdAbs;
                let k = if is_abs { t } else { rng.range(0, t) };
                b.i(MOV64_REG, 6, 1, 0, 0);
                if !is_abs {
                    b.lddw(8, (t - k) as u64);
                }
                let ld = |b: &mut Builder| {
                    if is_abs { b.i(opc, 0, 0, 0, t as i32) } else { b.i(opc, 0, 8, 0, k as i32) }
                };
                ld(&mut b);
                b.i(MOV64_REG, 7, 0, 0, 0);
                // overlapping store of a random width at a random position inside the loaded bytes
                let sw = *rng.pick(&[1i64, 2, 4, 8]);
                let lo = (t - sw + 1).max(0);
                let hi = (t + w - 1).min(pkt.len() as i64 - sw);
                let st_at = if lo <= hi { rng.range(lo, hi) } else { t.min(pkt.len() as i64 - sw).max(0) };
                let ssz = match sw {
                    1 => 0x10,
                    2 => 0x08,
                    4 => 0x00,
                    _ => 0x18,
                };
                if (pkt.len() as i64) >= sw {
                    if rng.chance(1, 2) {
                        b.i(0x62 | ssz, 6, 0, st_at as i16, rng.next() as i32);
                    } else {
                        b.lddw(9, rng.next());
                        b.i(0x63 | ssz, 6, 9, st_at as i16, 0);
                    }
                }
                ld(&mut b);
                b.i(MUL64_IMM, 7, 0, 0, 31);
                b.i(XOR64_REG, 0, 7, 0, 0);
                b.exit();
            } else if info.shape == Shape::LdAbs {
                b.i(opc, if rng.chance(1, 8) { dst } else { 0 }, 0, 0, t as i32);
            } else {
                if src == 10 {
                    src = 7;
                }
                // the index register may be negative, compensated by the immediate (backward walk)
                let k = if rng.chance(1, 3) { *rng.pick(&[t + 1, t + 4, t + 1000, 0x7fff_ffff]) } else { rng.range(0, t) };
                b.lddw(src, (t - k) as u64);
                b.i(opc, if rng.chance(1, 8) { dst } else { 0 }, src, 0, k as i32);
            }
            b.exit();
        }
        Shape::Call => {
            if rng.chance(1, 2) {
                template = "call-helper";
                let id = *rng.pick(&[0u32, 1, 2, 0x7fff_ffff, 0x8000_0000, 0xffff_ffff, 6, 42]);
                let j = rng.below(8) as usize;
                helpers.push((id, j));
                for r in 1..=5u8 {
                    b.lddw(r, rng.interesting_u64().0);
                }
                b.i(CALL, 0, 0, 0, id as i32);
                b.exit();
                src = 0;
            } else {
                template = "call-local";
                let f = b.label();
                b.lddw(6, a);
                b.lddw(1, bval);
                b.call_label(f);
                b.i(ADD64_REG, 0, 6, 0, 0);
                b.exit();
                b.place(f);
                b.i(MOV64_REG, 0, 1, 0, 0);
                b.lddw(6, 0xdead);
                b.exit();
                src = 1;
            }
        }
        Shape::Exit => {
            template = "exit";
            b.lddw(0, a);
            b.i(EXIT, if rng.chance(1, 4) { dst } else { 0 }, if rng.chance(1, 4) { src.min(10) } else { 0 }, 0, 0);
        }
        Shape::TailCall => unreachable!(),
    }
    let mut prog = b.assemble().expect("micro assemble");
    if rng.chance(1, 6) {
        fuzz_unused_fields(&mut prog, rng);
    }
    let mut c = Case::new(kind, prog, &format!("micro/{template}"));
    c.pkt = pkt;
    c.helpers = helpers;
    c.end_aligned = rng.chance(1, 2);
    if kind == Kind::Mbuff {
        let ml = if rng.chance(1, 2) { 32 } else { rng.range(1, 80) as usize };
        c.mbuff = rng.bytes(ml);
    }
    if kind == Kind::Fixed {
        c.offs = *rng.pick(&[(0usize, 8usize), (8, 0), (0x40, 0x50), (16, 32)]);
    }
    if let Some(o) = fixed_overlap {
        c.offs = o;
    }
    (c, MicroInfo { opc, dst, src, cls_a, cls_b, template })
}

#[allow(clippy::too_many_arguments)]
fn emit_mem_op(b: &mut Builder, _rng: &mut Rng, opc: u8, info: OpInfo, base: u8, val: u8, off: i16, imm: i32, bval: u64, is_load: bool) {
    if is_load {
        b.i(opc, val, base, off, 0);
    } else if info.shape == Shape::StImm {
        b.i(opc, base, 0, off, imm);
    } else {
        if val != base {
            b.lddw(val, bval);
        }
        b.i(opc, base, val, off, 0);
    }
}

// ---------------------------------------------------------------------------------------------
// G-struct: random structured programs

pub struct StructOpts {
    pub allow_local_calls: bool,
    pub allow_helpers: bool,
    pub allow_mem: bool,
    pub max_body: usize,
    /// callee functions use their stack frames (exposes frame aliasing)
    pub callee_stack: bool,
    pub calc: CalcSpec,
}

impl Default for StructOpts {
    fn default() -> Self {
        StructOpts { allow_local_calls: true, allow_helpers: true, allow_mem: true, max_body: 24, callee_stack: true, calc: CalcSpec::None }
    }
}

struct FnCtx {
    /// registers currently holding defined scalars
    defined: [bool; 11],
    /// register holding the packet pointer (6) is valid
    pkt_ok: bool,
    /// stack slots (index k => [r10-8k]) written in this function
    slots: Vec<i16>,
    /// bytes of stack this function may use below its r10
    frame_avail: i64,
    in_loop: bool,
    depth: usize,
}

struct SGen<'r> {
    rng: &'r mut Rng,
    b: Builder,
    opts: &'r StructOpts,
    pkt_len: usize,
    helpers: Vec<(u32, usize)>,
    /// labels of callee functions, index = function number
    funcs: Vec<usize>,
    features: Vec<&'static str>,
}

const SCALARS: [u8; 8] = [0, 2, 3, 4, 5, 7, 8, 1];

impl<'r> SGen<'r> {
    fn feat(&mut self, f: &'static str) {
        if !self.features.contains(&f) {
            self.features.push(f);
        }
    }
    fn pick_defined(&mut self, cx: &FnCtx) -> Option<u8> {
        let c: Vec<u8> = SCALARS.iter().copied().filter(|r| cx.defined[*r as usize]).collect();
        if c.is_empty() { None } else { Some(*self.rng.pick(&c)) }
    }
    fn pick_dst(&mut self, cx: &FnCtx, need_defined: bool) -> Option<u8> {
        let c: Vec<u8> = SCALARS.iter().copied().filter(|r| !need_defined || cx.defined[*r as usize]).collect();
        if c.is_empty() { None } else { Some(*self.rng.pick(&c)) }
    }

    fn alu(&mut self, cx: &mut FnCtx) {
        let ops = alu_opcodes();
        let opc = *self.rng.pick(&ops);
        let info = op_info(opc).unwrap();
        let is_mov = opc >> 4 == 11;
        let Some(dst) = self.pick_dst(cx, !is_mov) else { return };
        match info.shape {
            Shape::AluReg => {
                let Some(src) = self.pick_defined(cx) else { return };
                self.b.i(opc, dst, src, 0, 0);
            }
            Shape::AluImm => {
                let imm = self.rng.interesting_i32().0;
                self.b.i(opc, dst, 0, 0, imm);
            }
            Shape::Unary => self.b.i(opc, dst, 0, 0, 0),
            Shape::Endian => {
                let w = endian_imm(self.rng);
                self.b.i(opc, dst, 0, 0, w)
            }
            _ => {}
        }
        cx.defined[dst as usize] = true;
    }

    fn lddw(&mut self, cx: &mut FnCtx) {
        let dst = self.pick_dst(cx, false).unwrap();
        let v = self.rng.interesting_u64().0;
        self.b.lddw(dst, v);
        cx.defined[dst as usize] = true;
    }

    fn pkt_access(&mut self, cx: &mut FnCtx) {
        if !cx.pkt_ok || self.pkt_len == 0 {
            return;
        }
        self.feat("pkt");
        let w = *self.rng.pick(&[1i64, 2, 4, 8]);
        if (self.pkt_len as i64) < w {
            return;
        }
        let off = self.rng.range(0, self.pkt_len as i64 - w) as i16;
        let sz = match w {
            1 => 0x10,
            2 => 0x08,
            4 => 0x00,
            _ => 0x18,
        };
        match self.rng.below(4) {
            0 | 1 => {
                let dst = self.pick_dst(cx, false).unwrap();
                self.b.i(0x61 | sz, dst, 6, off, 0);
                cx.defined[dst as usize] = true;
            }
            2 => {
                if let Some(src) = self.pick_defined(cx) {
                    self.b.i(0x63 | sz, 6, src, off, 0);
                }
            }
            _ => {
                let imm = self.rng.interesting_i32().0;
                self.b.i(0x62 | sz, 6, 0, off, imm);
            }
        }
    }

    fn ldabs(&mut self, cx: &mut FnCtx) {
        if self.pkt_len == 0 {
            return;
        }
        self.feat("ldabs");
        let w = *self.rng.pick(&[1i64, 2, 4, 8]);
        if (self.pkt_len as i64) < w {
            return;
        }
        let sz = match w {
            1 => 0x10,
            2 => 0x08,
            4 => 0x00,
            _ => 0x18,
        };
        let t = self.rng.range(0, self.pkt_len as i64 - w);
        if self.rng.chance(1, 2) {
            self.b.i(0x20 | sz, 0, 0, 0, t as i32);
        } else {
            let k = self.rng.range(0, t);
            // index register: any scalar except r0 (clobbered) - load the index explicitly
            let r = *self.rng.pick(&[2u8, 3, 4, 5, 7, 8]);
            self.b.i(MOV64_IMM, r, 0, 0, (t - k) as i32);
            cx.defined[r as usize] = true;
            self.b.i(0x40 | sz, 0, r, 0, k as i32);
        }
        cx.defined[0] = true;
    }

    fn stack_access(&mut self, cx: &mut FnCtx) {
        if cx.frame_avail < 8 {
            return;
        }
        self.feat("stack");
        let nslots = (cx.frame_avail / 8).min(if self.rng.chance(1, 4) { 64 } else { 12 });
        let k = self.rng.range(1, nslots) as i16;
        if cx.slots.contains(&k) && self.rng.chance(1, 2) {
            // load (any width inside the slot)
            let w = *self.rng.pick(&[1i16, 2, 4, 8]);
            let sz = match w {
                1 => 0x10,
                2 => 0x08,
                4 => 0x00,
                _ => 0x18,
            };
            let inner = self.rng.range(0, (8 - w) as i64) as i16;
            let dst = self.pick_dst(cx, false).unwrap();
            self.b.i(0x61 | sz, dst, 10, -8 * k + inner, 0);
            cx.defined[dst as usize] = true;
        } else {
            // full 8-byte store defines the slot
            if let Some(src) = self.pick_defined(cx) {
                if self.rng.chance(1, 2) {
                    self.b.i(STXDW, 10, src, -8 * k, 0);
                } else {
                    let imm = self.rng.interesting_i32().0;
                    self.b.i(STDW, 10, 0, -8 * k, imm);
                }
                if !cx.slots.contains(&k) {
                    cx.slots.push(k);
                }
            }
        }
    }

    fn xadd(&mut self, cx: &mut FnCtx) {
        // atomic add on an initialised, aligned stack slot
        if cx.slots.is_empty() {
            return;
        }
        let Some(src) = self.pick_defined(cx) else { return };
        self.feat("xadd");
        let k = *self.rng.pick(&cx.slots);
        if self.rng.chance(1, 2) {
            self.b.i(XADD_DW, 10, src, -8 * k, 0);
        } else {
            self.b.i(XADD_W, 10, src, -8 * k + *self.rng.pick(&[0i16, 4]), 0);
        }
    }

    fn branch(&mut self, cx: &mut FnCtx, budget: usize) {
        let ops = jcond_opcodes();
        let opc = *self.rng.pick(&ops);
        let info = op_info(opc).unwrap();
        let Some(a) = self.pick_defined(cx) else { return };
        self.feat("branch");
        let l_else = self.b.label();
        let l_end = self.b.label();
        if info.shape == Shape::JmpReg {
            let s = self.pick_defined(cx).unwrap();
            self.b.j(opc, a, s, 0, l_else);
        } else {
            let imm = self.rng.interesting_i32().0;
            self.b.j(opc, a, 0, imm, l_else);
        }
        // both arms must leave the same set of registers defined: snapshot and intersect
        let before = cx.defined;
        let slots_before = cx.slots.clone();
        self.body(cx, budget / 2);
        let after_then = cx.defined;
        let slots_then = cx.slots.clone();
        self.b.j(JA, 0, 0, 0, l_end);
        self.b.place(l_else);
        cx.defined = before;
        cx.slots = slots_before;
        self.body(cx, budget / 2);
        // an empty else arm + ja over nothing would give off = 0 jumps: fine for the verifier
        self.b.place(l_end);
        for r in 0..11 {
            cx.defined[r] = cx.defined[r] && after_then[r];
        }
        cx.slots.retain(|s| slots_then.contains(s));
    }

    fn loop_(&mut self, cx: &mut FnCtx, budget: usize) {
        if cx.in_loop {
            return;
        }
        self.feat("loop");
        let n = if self.rng.chance(1, 12) { self.rng.range(100, 3000) as i32 } else { self.rng.range(1, 6) as i32 };
        let top = self.b.label();
        self.b.i(MOV64_IMM, 9, 0, 0, n);
        self.b.place(top);
        cx.in_loop = true;
        // the loop body runs at least once; registers defined in it stay defined
        self.body(cx, budget / 2);
        cx.in_loop = false;
        self.b.i(ADD64_IMM, 9, 0, 0, -1);
        if self.rng.chance(1, 2) {
            self.b.j(JNE_IMM, 9, 0, 0, top);
        } else {
            self.b.j(JGT_IMM, 9, 0, 0, top);
        }
    }

    fn helper_call(&mut self, cx: &mut FnCtx) {
        if self.helpers.is_empty() {
            return;
        }
        self.feat("helper");
        let (id, _) = *self.rng.pick(&self.helpers.clone());
        for r in 1..=5u8 {
            match self.pick_defined(cx) {
                Some(s) if s != r && self.rng.chance(1, 2) => self.b.i(MOV64_REG, r, s, 0, 0),
                _ => {
                    let imm = self.rng.interesting_i32().0;
                    self.b.i(MOV64_IMM, r, 0, 0, imm)
                }
            }
            cx.defined[r as usize] = true;
        }
        self.b.i(CALL, 0, 0, 0, id as i32);
        cx.defined[0] = true;
        for r in 1..=5 {
            cx.defined[r] = false;
        }
    }

    fn local_call(&mut self, cx: &mut FnCtx) {
        // only call functions with a higher index than the current depth: no recursion
        if cx.depth >= self.funcs.len() {
            return;
        }
        self.feat("localcall");
        let fi = self.rng.range(cx.depth as i64, self.funcs.len() as i64 - 1) as usize;
        let l = self.funcs[fi];
        // arguments
        for r in 1..=2u8 {
            match self.pick_defined(cx) {
                Some(s) if s != r => self.b.i(MOV64_REG, r, s, 0, 0),
                _ => {
                    let imm = self.rng.interesting_i32().0;
                    self.b.i(MOV64_IMM, r, 0, 0, imm)
                }
            }
            cx.defined[r as usize] = true;
        }
        self.b.call_label(l);
        // callee defines r0; r1-r5 hold whatever the callee left (it defines r1, r2 at least)
        cx.defined[0] = true;
        for r in 3..=5 {
            cx.defined[r] = false;
        }
    }

    fn dead_code(&mut self) {
        self.feat("dead");
        let l = self.b.label();
        self.b.j(JA, 0, 0, 0, l);
        for _ in 0..self.rng.range(1, 4) {
            let ops = alu_opcodes();
            let opc = *self.rng.pick(&ops);
            let imm = if opc == LE || opc == BE { 16 } else { self.rng.next() as i32 };
            self.b.i(opc, self.rng.below(10) as u8, self.rng.below(11) as u8, self.rng.next() as i16, imm);
        }
        self.b.place(l);
    }

    fn body(&mut self, cx: &mut FnCtx, budget: usize) {
        let n = if budget == 0 { 0 } else { self.rng.range(1, budget as i64) as usize };
        let mut left = n;
        while left > 0 {
            left -= 1;
            let r = self.rng.below(100);
            match r {
                0..=39 => self.alu(cx),
                40..=47 => self.lddw(cx),
                48..=57 if self.opts.allow_mem => self.pkt_access(cx),
                58..=62 if self.opts.allow_mem => self.ldabs(cx),
                63..=72 if self.opts.allow_mem && (cx.depth == 0 || self.opts.callee_stack) => self.stack_access(cx),
                73..=75 if self.opts.allow_mem && (cx.depth == 0 || self.opts.callee_stack) => self.xadd(cx),
                76..=83 if left >= 2 => {
                    self.branch(cx, left.min(8));
                    left = left.saturating_sub(3);
                }
                84..=88 if left >= 2 => {
                    self.loop_(cx, left.min(8));
                    left = left.saturating_sub(3);
                }
                89..=93 if self.opts.allow_helpers => self.helper_call(cx),
                94..=97 if self.opts.allow_local_calls && !cx.in_loop => self.local_call(cx),
                98..=99 => self.dead_code(),
                _ => self.alu(cx),
            }
        }
    }

    fn fold(&mut self, cx: &mut FnCtx) {
        // fold every defined scalar and every written slot into r0
        if !cx.defined[0] {
            self.b.i(MOV64_IMM, 0, 0, 0, 0x1234);
            cx.defined[0] = true;
        }
        for r in [2u8, 3, 4, 5, 7, 8, 1] {
            if cx.defined[r as usize] {
                self.b.i(MUL64_IMM, 0, 0, 0, 0x01000193);
                self.b.i(XOR64_REG, 0, r, 0, 0);
            }
        }
        let slots = cx.slots.clone();
        for k in slots {
            self.b.i(LDXDW, 2, 10, -8 * k, 0);
            self.b.i(MUL64_IMM, 0, 0, 0, 0x01000193);
            self.b.i(XOR64_REG, 0, 2, 0, 0);
        }
    }
}

/// Random structured program. Returns the case and the list of features it contains.
pub fn gen_struct(rng: &mut Rng, opts: &StructOpts) -> (Case, Vec<&'static str>) {
    let kind = *rng.pick(&[Kind::Raw, Kind::Raw, Kind::Mbuff, Kind::Fixed, Kind::NoData]);
    let pkt: Vec<u8> = if kind == Kind::NoData {
        Vec::new()
    } else {
        let len = if rng.chance(1, 3) { rng.range(8, 300) as usize } else { *rng.pick(&[8usize, 16, 17, 33, 64, 128]) };
        rng.bytes(len)
    };
    let offs = *rng.pick(&[(0usize, 8usize), (8, 0), (0x40, 0x50), (0x50, 0x40), (16, 32)]);
    let nfuncs = if opts.allow_local_calls { rng.below(4) as usize } else { 0 };
    // a metadata VM used with an EMPTY metadata buffer: r1 then holds the packet address
    let mbuff_empty = kind == Kind::Mbuff && rng.chance(1, 8);
    let mut helpers: Vec<(u32, usize)> = Vec::new();
    if opts.allow_helpers {
        for _ in 0..rng.below(4) {
            let id = *rng.pick(&[0u32, 1, 2, 3, 7, 0x7fff_ffff, 0x8000_0000, 0xffff_ffff, 1000]);
            if !helpers.iter().any(|(i, _)| *i == id) {
                helpers.push((id, rng.below(8) as usize));
            }
        }
    }
    if opts.allow_helpers && rng.chance(1, 25) {
        // a large helper table (ids 100..100+N): the program calls a few of them
        let n = rng.range(100, 600) as u32;
        for id in 100..100 + n {
            helpers.push((id, (id % 8) as usize));
        }
    }
    loop {
        let mut g = SGen { rng, b: Builder::new(), opts, pkt_len: pkt.len(), helpers: helpers.clone(), funcs: Vec::new(), features: Vec::new() };
        for _ in 0..nfuncs {
            let l = g.b.label();
            g.funcs.push(l);
        }
        // frame sizes: main and callee i
        // With the default 256-byte frames only depth 0 and 1 have room; the generator gives every
        // function the stack budget that its frame size (as reported by `calc`) allows.
        let mut cx = FnCtx { defined: [false; 11], pkt_ok: false, slots: Vec::new(), frame_avail: 0, in_loop: false, depth: 0 };
        cx.defined[10] = false;
        // prologue
        match kind {
            Kind::Raw => {
                g.b.i(MOV64_REG, 6, 1, 0, 0);
                cx.pkt_ok = true;
            }
            Kind::Mbuff if mbuff_empty => {
                g.b.i(MOV64_REG, 6, 1, 0, 0);
                cx.pkt_ok = true;
            }
            Kind::Mbuff => {
                g.b.i(LDXDW, 6, 1, 0, 0);
                cx.pkt_ok = true;
            }
            Kind::Fixed => {
                g.b.i(LDXDW, 6, 1, offs.0 as i16, 0);
                cx.pkt_ok = true;
            }
            Kind::NoData => {}
        }
        for r in [0u8, 2, 3, 4, 5, 7, 8] {
            if g.rng.chance(3, 4) {
                let v = g.rng.interesting_u64().0;
                g.b.lddw(r, v);
                cx.defined[r as usize] = true;
            }
        }
        // main's frame: entry pc 0
        cx.frame_avail = (opts.calc.frame(0) as i64).min(512);
        if nfuncs == 0 {
            cx.frame_avail = 512.min(96);
        }
        g.body(&mut cx, opts.max_body);
        g.fold(&mut cx);
        g.b.exit();
        // callee functions; function i may call functions > i, so depth of function i <= i+1
        let label_pcs_needed = nfuncs > 0;
        let mut func_bodies_ok = true;
        for fi in 0..nfuncs {
            let l = g.funcs[fi];
            g.b.place(l);
            let mut fx = FnCtx { defined: [false; 11], pkt_ok: false, slots: Vec::new(), frame_avail: 0, in_loop: false, depth: fi + 1 };
            fx.defined[1] = true;
            fx.defined[2] = true;
            // stack budget decided after layout (needs entry pcs) - use a conservative bound:
            // with default frames only the first nesting level has room below the caller.
            fx.frame_avail = match &opts.calc {
                CalcSpec::None => {
                    if fi == 0 { 64 } else { 0 }
                }
                CalcSpec::Const(c) => {
                    // depth of function fi is at most fi+1; all frames have size c
                    let used = (*c as i64) * (fi as i64 + 1);
                    (512 - used).min(*c as i64).max(0)
                }
                CalcSpec::Table(_) => {
                    // every frame is at most 128 bytes
                    let used = 128 * (fi as i64 + 1);
                    (512 - used).min(8).max(0)
                }
            };
            if !opts.callee_stack {
                fx.frame_avail = 0;
            }
            // scramble callee-saved registers
            for r in [6u8, 7, 8, 9] {
                if g.rng.chance(2, 3) {
                    let v = g.rng.next();
                    g.b.lddw(r, v);
                    if r == 7 || r == 8 {
                        fx.defined[r as usize] = true;
                    }
                }
            }
            g.body(&mut fx, (opts.max_body / 2).max(2));
            g.fold(&mut fx);
            g.b.exit();
            let _ = &mut func_bodies_ok;
        }
        let _ = label_pcs_needed;
        if let Some(mut prog) = g.b.assemble() {
            if g.rng.chance(1, 6) {
                fuzz_unused_fields(&mut prog, g.rng);
                g.feat("unused-fields");
            }
            let feats = g.features.clone();
            let mut c = Case::new(kind, prog, "struct");
            c.pkt = pkt.clone();
            c.offs = offs;
            c.helpers = helpers.clone();
            c.calc = opts.calc.clone();
            c.end_aligned = g.rng.chance(1, 2);
            if kind == Kind::Mbuff && !mbuff_empty {
                let ml = if g.rng.chance(1, 3) { g.rng.range(16, 120) as usize } else { *g.rng.pick(&[16usize, 24, 64]) };
                c.mbuff = g.rng.bytes(ml);
            }
            let mut cls = String::from("struct");
            for f in &feats {
                cls.push('+');
                cls.push_str(f);
            }
            c.class = cls;
            return (c, feats);
        }
    }
}

// ---------------------------------------------------------------------------------------------
// G-long: very long programs with far jumps

/// Programs with `n` instructions in total (approximately), exercising jumps at high pcs.
pub fn gen_long(rng: &mut Rng, n: usize, variant: u64) -> Case {
    let mut v: Vec<Insn> = Vec::with_capacity(n + 16);
    let filler = |v: &mut Vec<Insn>, k: usize, rng: &mut Rng| {
        for _ in 0..k {
            v.push(Insn::new(ADD64_IMM, 0, 0, 0, (rng.next() & 0xff) as i32 + 1));
        }
    };
    let class;
    match variant % 6 {
        5 => {
            // mixed instruction kinds scattered over the whole length (position-dependent behaviour)
            class = "long/mixed";
            v.push(Insn::new(MOV64_IMM, 0, 0, 0, 7));
            v.push(Insn::new(MOV64_IMM, 1, 0, 0, 1));
            v.push(Insn::new(STDW, 10, 0, -8, 5));
            v.push(Insn::new(STDW, 10, 0, -264, 9));
            while v.len() + 16 < n {
                match rng.below(40) {
                    0 => {
                        v.push(Insn::new(STDW, 10, 0, -8, (rng.next() & 0xffff) as i32));
                        v.push(Insn::new(LDXDW, 2, 10, -8, 0));
                        v.push(Insn::new(ADD64_REG, 0, 2, 0, 0));
                    }
                    1 => {
                        v.push(Insn::new(LDDW, 3, 0, 0, rng.next() as i32));
                        v.push(Insn::new(0, 0, 0, 0, rng.next() as i32));
                        v.push(Insn::new(XOR64_REG, 0, 3, 0, 0));
                    }
                    2 => {
                        v.push(Insn::new(MOV32_REG, 4, 0, 0, 0));
                        v.push(Insn::new(ADD64_REG, 0, 4, 0, 0));
                    }
                    3 => {
                        v.push(Insn::new(MOV64_REG, 5, 0, 0, 0));
                        v.push(Insn::new(BE, 5, 0, 0, *rng.pick(&[16, 32, 64])));
                        v.push(Insn::new(XOR64_REG, 0, 5, 0, 0));
                    }
                    4 => {
                        let sk = rng.range(1, 4) as i16;
                        let opc = *rng.pick(&[JEQ_IMM, JNE_IMM, 0x2d, 0x6d, 0xa5, 0x16, 0x5e]);
                        v.push(Insn::new(opc, 0, 1, sk, (rng.next() & 0xff) as i32));
                        for _ in 0..sk {
                            v.push(Insn::new(ADD64_IMM, 0, 0, 0, 1000));
                        }
                    }
                    5 => {
                        v.push(Insn::new(XADD_DW, 10, 1, -264, 0));
                        v.push(Insn::new(LDXW, 2, 10, -264, 0));
                        v.push(Insn::new(ADD64_REG, 0, 2, 0, 0));
                    }
                    6 => {
                        v.push(Insn::new(0x3f, 0, 1, 0, 0)); // div64 r0, r1 (r1 = 1)
                        v.push(Insn::new(0x27, 0, 0, 0, 3));
                    }
                    7 => {
                        v.push(Insn::new(0x67, 0, 0, 0, 1)); // lsh64 r0, 1
                        v.push(Insn::new(0xc7, 0, 0, 0, 1)); // arsh64 r0, 1
                    }
                    _ => v.push(Insn::new(ADD64_IMM, 0, 0, 0, (rng.next() & 0xf) as i32)),
                }
            }
            v.push(Insn::new(EXIT, 0, 0, 0, 0));
        }
        4 => {
            // local calls and helper-free returns located beyond pc 65535 (return address / call
            // target arithmetic at high pcs), forward and backward
            class = "long/call-high";
            // callee A near the start (backward call target); A itself calls C (nested call in a
            // far-away function) and both report caller_r10 - own_r10
            v.push(Insn::new(JA, 0, 0, 10, 0));
            let callee_a = v.len();
            v.push(Insn::new(SUB64_REG, 2, 10, 0, 0)); // r2 = caller r10 - r10
            v.push(Insn::new(ADD64_REG, 0, 2, 0, 0));
            v.push(Insn::new(MOV64_REG, 2, 10, 0, 0));
            v.push(Insn::new(CALL, 0, 1, 0, 2)); // -> C
            v.push(Insn::new(ADD64_IMM, 0, 0, 0, 1000));
            v.push(Insn::new(EXIT, 0, 0, 0, 0));
            // C
            v.push(Insn::new(SUB64_REG, 2, 10, 0, 0));
            v.push(Insn::new(MUL64_IMM, 2, 0, 0, 65537));
            v.push(Insn::new(ADD64_REG, 0, 2, 0, 0));
            v.push(Insn::new(EXIT, 0, 0, 0, 0));
            v.push(Insn::new(MOV64_IMM, 0, 0, 0, 1));
            v.push(Insn::new(LDDW, 6, 0, 0, 0x1234));
            v.push(Insn::new(0, 0, 0, 0, 0x77));
            while v.len() + 24 < n {
                v.push(Insn::new(ADD64_IMM, 0, 0, 0, 1));
            }
            // backward call to A from a high pc
            let at = v.len();
            v.push(Insn::new(MOV64_REG, 2, 10, 0, 0));
            v.push(Insn::new(CALL, 0, 1, 0, (callee_a as i64 - (at as i64 + 2)) as i32));
            v.push(Insn::new(ADD64_IMM, 0, 0, 0, 3));
            // forward call to B (placed after the final exit)
            let at2 = v.len();
            v.push(Insn::new(CALL, 0, 1, 0, 0));
            v.push(Insn::new(ADD64_REG, 0, 6, 0, 0)); // r6 must have survived both calls
            v.push(Insn::new(EXIT, 0, 0, 0, 0));
            let callee_b = v.len();
            v[at2].imm = (callee_b as i64 - (at2 as i64 + 1)) as i32;
            v.push(Insn::new(LDDW, 6, 0, 0, -1));
            v.push(Insn::new(0, 0, 0, 0, -1));
            v.push(Insn::new(ADD64_IMM, 0, 0, 0, 70000));
            v.push(Insn::new(EXIT, 0, 0, 0, 0));
        }
        0 => {
            // straight line with chained maximal forward jumps: every 32768th instruction jumps
            // +32767 (skipping a marked block), so the pc sequence crosses 2^15 and 2^16
            class = "long/chain-fwd";
            v.push(Insn::new(MOV64_IMM, 0, 0, 0, 1));
            while v.len() + 40000 < n {
                // jump over `skip` poisoned instructions
                let skip = *rng.pick(&[32767usize, 32766, 20000, 1]);
                v.push(Insn::new(JA, 0, 0, skip as i16, 0));
                for _ in 0..skip {
                    v.push(Insn::new(MOV64_IMM, 0, 0, 0, -1)); // would destroy the result
                }
                filler(&mut v, rng.below(50) as usize + 1, rng);
            }
            while v.len() + 1 < n {
                filler(&mut v, 1, rng);
            }
            v.push(Insn::new(EXIT, 0, 0, 0, 0));
        }
        1 => {
            // taken conditional branches (forward and backward) located beyond pc 32767 / 65535
            class = "long/high-branches";
            v.push(Insn::new(MOV64_IMM, 0, 0, 0, 0));
            v.push(Insn::new(MOV64_IMM, 1, 0, 0, 3)); // loop counter
            let body = n.saturating_sub(64);
            // pad to high pc
            while v.len() < body {
                v.push(Insn::new(ADD64_IMM, 0, 0, 0, 1));
            }
            // loop at high pc: L: add r0,7 ; add r1,-1 ; jne r1,0,L (backward, taken twice)
            v.push(Insn::new(ADD64_IMM, 0, 0, 0, 7));
            v.push(Insn::new(ADD64_IMM, 1, 0, 0, -1));
            v.push(Insn::new(JNE_IMM, 1, 0, -3, 0));
            // forward taken branch
            v.push(Insn::new(JEQ_IMM, 1, 0, 1, 0));
            v.push(Insn::new(MOV64_IMM, 0, 0, 0, -1));
            // far backward jump then forward again: ja back to a landing pad near the start of
            // the padding is not possible (> 32768); instead hop -30000 and return
            let hop = 30000usize.min(v.len().saturating_sub(100));
            if hop > 10 {
                // patch a landing pad at (cur - hop): replace two fillers by "add r0,100; ja +hop-ish"
                let cur = v.len();
                let pad = cur - hop;
                // pad: add r0,100 ; ja -> cur+1
                v[pad] = Insn::new(ADD64_IMM, 0, 0, 0, 100);
                let back_off = (cur as i64 + 1) - (pad as i64 + 1 + 1);
                v[pad + 1] = Insn::new(JA, 0, 0, back_off as i16, 0);
                // the straight-line flow must skip the pad's ja: make the instruction before the
                // pad jump over both
                v[pad - 1] = Insn::new(JA, 0, 0, 2, 0);
                v.push(Insn::new(JA, 0, 0, -(hop as i64 + 1) as i16, 0)); // at `cur`: to pad
            }
            v.push(Insn::new(EXIT, 0, 0, 0, 0));
        }
        2 => {
            // division / modulo by a zero register beyond pc 65535 (JIT uses the pc to resume)
            class = "long/divmod-zero-high";
            v.push(Insn::new(MOV64_IMM, 0, 0, 0, 5));
            v.push(Insn::new(MOV64_IMM, 1, 0, 0, 0));
            v.push(Insn::new(MOV64_IMM, 2, 0, 0, 77));
            while v.len() + 16 < n {
                v.push(Insn::new(ADD64_IMM, 2, 0, 0, 1));
            }
            let ops = [0x3fu8, 0x9f, 0x3c, 0x9c];
            for o in ops {
                v.push(Insn::new(MOV64_REG, 3, 2, 0, 0));
                v.push(Insn::new(o, 3, 1, 0, 0));
                v.push(Insn::new(ADD64_REG, 0, 3, 0, 0));
            }
            v.push(Insn::new(EXIT, 0, 0, 0, 0));
        }
        _ => {
            // many short random forward branches spread over the whole length
            class = "long/scatter";
            v.push(Insn::new(MOV64_IMM, 0, 0, 0, 0));
            v.push(Insn::new(MOV64_IMM, 1, 0, 0, 1));
            while v.len() + 8 < n {
                if rng.chance(1, 50) {
                    let sk = rng.range(1, 5) as i16;
                    let taken = rng.chance(1, 2);
                    v.push(Insn::new(if taken { JEQ_IMM } else { JNE_IMM }, 1, 0, sk, 1));
                    for _ in 0..sk {
                        v.push(Insn::new(ADD64_IMM, 0, 0, 0, 1000));
                    }
                } else {
                    v.push(Insn::new(ADD64_IMM, 0, 0, 0, (rng.next() & 0xf) as i32));
                }
            }
            v.push(Insn::new(EXIT, 0, 0, 0, 0));
        }
    }
    let mut c = Case::new(Kind::NoData, encode_prog(&v), class);
    if class == "long/call-high" && rng.chance(2, 3) {
        c.calc = if rng.chance(1, 2) { CalcSpec::Table(rng.below(16) as u16) } else { CalcSpec::Const(*rng.pick(&[16u16, 48, 96])) };
    }
    c
}

// ---------------------------------------------------------------------------------------------
// G-soup: hostile byte strings shaped to have a chance with the verifier

pub fn gen_soup(rng: &mut Rng) -> Vec<u8> {
    let ops = all_supported_opcodes();
    let n = rng.range(1, 24) as usize;
    let mut v: Vec<Insn> = Vec::new();
    while v.len() < n {
        let opc = *rng.pick(&ops);
        let info = op_info(opc).unwrap();
        let mut dst = rng.below(10) as u8;
        let src = rng.below(11) as u8;
        let mut off = if rng.chance(1, 2) { rng.range(-8, 8) as i16 } else { rng.interesting_i16().0 };
        let mut imm = if rng.chance(1, 2) { rng.range(-4, 16) as i32 } else { rng.interesting_i32().0 };
        let mut src = src;
        match info.shape {
            Shape::Lddw => {
                v.push(Insn::new(opc, dst, if rng.chance(1, 8) { src } else { 0 }, off, imm));
                if rng.chance(1, 2) {
                    v.push(Insn::new(0, 0, 0, 0, rng.next() as i32));
                } else {
                    v.push(Insn::new(0, rng.below(16) as u8, rng.below(16) as u8, rng.next() as i16, rng.next() as i32));
                }
                continue;
            }
            Shape::Endian => imm = *rng.pick(&[16, 32, 64]),
            Shape::Xadd => {
                imm = 0;
                if rng.chance(1, 4) {
                    dst = 10;
                }
            }
            Shape::StImm | Shape::StReg => {
                if rng.chance(1, 3) {
                    dst = 10;
                    off = -(rng.range(1, 64) as i16) * if rng.chance(1, 2) { 8 } else { 1 };
                }
            }
            Shape::LdReg => {
                if rng.chance(1, 3) {
                    src = 10;
                    off = -(rng.range(1, 64) as i16) * if rng.chance(1, 2) { 8 } else { 1 };
                }
            }
            Shape::Call => {
                src = if rng.chance(1, 2) { 1 } else { 0 };
                imm = if src == 1 { rng.range(-6, 6) as i32 } else { *rng.pick(&[0i32, 1, 2, 3, -1, i32::MIN, 5]) };
            }
            Shape::TailCall => continue,
            Shape::Ja | Shape::JmpImm | Shape::JmpReg => off = rng.range(-6, 6) as i16,
            _ => {}
        }
        v.push(Insn::new(opc, dst, src, off, imm));
    }
    // last instruction: exit or ja back (or, rarely, anything of the jump class)
    match rng.below(10) {
        0..=5 => v.push(Insn::new(EXIT, 0, 0, 0, 0)),
        6..=7 => {
            let back = rng.range(2, (v.len() as i64).max(2));
            v.push(Insn::new(JA, 0, 0, -(back as i16), 0))
        }
        _ => {
            let jops: Vec<u8> = ops.iter().copied().filter(|o| o & 7 == CLS_JMP && *o != TAIL_CALL).collect();
            let o = *rng.pick(&jops);
            v.push(Insn::new(o, rng.below(10) as u8, rng.below(2) as u8, rng.range(-4, -2) as i16, rng.range(-3, 3) as i32))
        }
    }
    // repair jump targets with some probability so that more programs pass the verifier
    let n = v.len();
    let is_hi: Vec<bool> = (0..n).map(|i| i > 0 && v[i - 1].opc == LDDW && v[i].opc == 0).collect();
    for i in 0..n {
        let info = match op_info(v[i].opc) {
            Some(x) => x,
            None => continue,
        };
        if is_hi[i] {
            continue;
        }
        let is_jump = matches!(info.shape, Shape::Ja | Shape::JmpImm | Shape::JmpReg);
        let is_lcall = info.shape == Shape::Call && v[i].src == 1;
        if (is_jump || is_lcall) && rng.chance(9, 10) {
            for _ in 0..8 {
                let t = rng.below(n as u64) as i64;
                if is_hi[t as usize] {
                    continue;
                }
                let d = t - (i as i64 + 1);
                if is_jump {
                    if d == -1 {
                        continue;
                    }
                    v[i].off = d as i16;
                } else {
                    v[i].imm = d as i32;
                }
                break;
            }
        }
    }
    encode_prog(&v)
}


/// A program in which the two extreme jump displacements are both TAKEN: `ja +32767` at pc 1 and
/// `ja -32768` near pc 32771 (then a second pass and exit). Result: 2.

// ---------------------------------------------------------------------------------------------
// G-fusion: adjacent instruction pairs an optimiser is tempted to fuse, with control flow entering
// between the two halves

/// Straight-line arithmetic on two or three registers, drawn from idiom pairs (zero/sign-extension
/// by shifts, mov+add, double negation, swap twice, mask+shift, add+add, x^x, lddw+add ...), inside a
/// counted loop whose back edge, and forward conditional jumps, land on arbitrary instruction
/// boundaries - in particular on the SECOND instruction of a pair. Everything is defined and no
/// memory is touched, so the reference machine predicts the value exactly.
pub fn gen_fusion(rng: &mut Rng) -> Case {
    let kind = *rng.pick(&[Kind::Raw, Kind::NoData, Kind::Mbuff, Kind::Fixed]);
    let mut b = Builder::new();
    let work: Vec<u8> = match rng.below(3) {
        0 => vec![0, 1],
        1 => vec![0, 3, 7],
        _ => vec![2, 0, 8, 5],
    };
    let counter = 6u8;
    for r in 0..=9u8 {
        if r == counter {
            continue;
        }
        match rng.below(3) {
            0 => b.i(MOV64_IMM, r, 0, 0, rng.next() as i32),
            1 => b.lddw(r, rng.next()),
            _ => b.lddw(r, *rng.pick(&[0u64, 1, 0xffff_ffff, 0x8000_0000, 0x1_0000_0000, u64::MAX, 0x8000_0000_0000_0000, 0x1234_5678_9abc_def0])),
        }
    }
    b.i(MOV64_IMM, counter, 0, 0, rng.range(2, 4) as i32);
    let n_items = rng.range(6, 28) as usize;
    // labels at every item boundary; jumps pick among them
    let labels: Vec<usize> = (0..=n_items * 2 + 2).map(|_| b.label()).collect();
    let mut li = 0usize;
    let mut pending_fwd: Vec<usize> = Vec::new();
    let alu64 = |op: u8, imm: bool| -> u8 { (op << 4) | if imm { 0x07 } else { 0x0f } };
    let alu32 = |op: u8, imm: bool| -> u8 { (op << 4) | if imm { 0x04 } else { 0x0c } };
    for _ in 0..n_items {
        let r = *rng.pick(&work);
        let r2 = *rng.pick(&work);
        let sh = *rng.pick(&[32i32, 32, 32, 16, 48, 56, 8, 24, 31, 1]);
        // first half, [label], second half: a label sits BETWEEN the halves of every pair
        let mid = labels[li];
        li += 1;
        let after = labels[li];
        li += 1;
        let pick = rng.below(18);
        let (first, second): ((u8, u8, u8, i32), (u8, u8, u8, i32)) = match pick {
            0 => ((alu64(6, true), r, 0, sh), (alu64(7, true), r, 0, sh)),        // lsh; rsh  (zero-extension)
            1 => ((alu64(6, true), r, 0, sh), (alu64(12, true), r, 0, sh)),       // lsh; arsh (sign-extension)
            2 => ((alu32(6, true), r, 0, sh & 31), (alu32(7, true), r, 0, sh & 31)),
            3 => ((alu64(7, true), r, 0, sh), (alu64(6, true), r, 0, sh)),        // rsh; lsh  (clear low bits)
            4 => ((MOV64_IMM, r, 0, rng.next() as i32), (alu64(0, true), r, 0, rng.range(-200, 200) as i32)),
            5 => ((alu64(0, true), r, 0, rng.range(-130, 130) as i32), (alu64(0, true), r, 0, rng.range(-130, 130) as i32)),
            6 => ((NEG64, r, 0, 0), (NEG64, r, 0, 0)),
            7 => ((MOV64_REG, r, r2, 0), (MOV64_REG, r2, r, 0)),
            8 => ((alu64(5, true), r, 0, *rng.pick(&[0xff, 0xffff, 0x7fff_ffff, -1, -256])), (alu64(6, true), r, 0, sh & 63)),
            9 => ((alu64(10, false), r, r, 0), (alu64(0, false), r, r2, 0)),      // xor r,r; add r,r2
            10 => ((alu64(2, true), r, 0, *rng.pick(&[2, 4, 8, 3, -1])), (alu64(3, true), r, 0, *rng.pick(&[2, 4, 8, 3, -1]))),
            11 => ((MOV32_REG, r, r, 0), (alu64(0, false), r, r2, 0)),            // mov32 r,r (zero-extend); add
            12 => ((BE, r, 0, *rng.pick(&[16, 32, 64])), (BE, r, 0, *rng.pick(&[16, 32, 64]))),
            13 => ((LE, r, 0, *rng.pick(&[16, 32, 64])), (alu64(7, true), r, 0, sh & 63)),
            14 => ((alu64(1, false), r, r, 0), (alu64(4, false), r, r2, 0)),      // sub r,r; or r,r2
            15 => ((alu32(0, true), r, 0, rng.next() as i32), (alu64(6, true), r, 0, 32)),
            16 => ((alu64(4, true), r, 0, 0), (alu64(5, true), r, 0, -1)),        // or 0; and -1 (no-ops)
            _ => ((alu32(11, false), r, r2, 0), (alu32(12, true), r, 0, sh & 31)),
        };
        if pick == 4 && rng.chance(1, 2) {
            b.lddw(first.1, rng.next());
        } else {
            b.i(first.0, first.1, first.2, 0, first.3);
        }
        b.place(mid);
        b.i(second.0, second.1, second.2, 0, second.3);
        b.place(after);
        // forward conditional jump to a later boundary (placed when reached)
        if rng.chance(1, 4) {
            let jr = *rng.pick(&work);
            let opc = *rng.pick(&[JEQ_IMM, JNE_IMM, JGT_IMM, 0x65u8, 0x45, 0xa5, 0xc5, 0x35]);
            let l = b.label();
            b.j(opc, jr, 0, rng.range(-3, 3) as i32, l);
            pending_fwd.push(l);
        }
        // resolve some pending forward jumps right between the NEXT pair's halves: done by
        // emitting the label before the next `mid` is placed - approximate it by placing here
        if !pending_fwd.is_empty() && rng.chance(1, 2) {
            let l = pending_fwd.remove(0);
            // land on the second half of a fresh pair
            let rr = *rng.pick(&work);
            b.i(alu64(6, true), rr, 0, 0, 32);
            b.place(l);
            b.i(if rng.chance(1, 2) { alu64(7, true) } else { alu64(12, true) }, rr, 0, 0, 32);
        }
    }
    for l in pending_fwd.drain(..) {
        b.place(l);
    }
    // loop back edge onto a random earlier boundary (often the middle of a pair)
    b.i(ADD64_IMM, counter, 0, 0, -1);
    let back = labels[rng.below(li as u64) as usize];
    b.j(JNE_IMM, counter, 0, 0, back);
    // fold every work register into r0
    for r in &work {
        if *r != 0 {
            b.i(MUL64_IMM, 0, 0, 0, 0x01000193);
            b.i(XOR64_REG, 0, *r, 0, 0);
        }
    }
    b.exit();
    let prog = b.assemble().expect("fusion program assembles");
    let mut c = Case::new(kind, prog, "fusion");
    if kind != Kind::NoData {
        c.pkt = rng.bytes(16);
    }
    if kind == Kind::Mbuff {
        c.mbuff = rng.bytes(32);
    }
    c
}

/// G-repeat: ONE instruction repeated N times in a row (N around 2^7, 2^8, 2^9, and sometimes beyond
/// 2^16): run-length peepholes, per-instruction tables and counters kept in narrow types. The
/// repeated instruction is an ALU operation, a store/load pair on a stack slot, an atomic add to a
/// stack slot or to the packet, or a byte swap; everything is initialised, so the result is exact.
pub fn gen_repeat(rng: &mut Rng) -> Case {
    let n = if rng.chance(1, 60) { *rng.pick(&[65_535usize, 65_536, 65_537, 70_001]) } else { *rng.pick(&[126usize, 127, 128, 129, 130, 200, 254, 255, 256, 257, 258, 300, 511, 512, 513, 1000, 1023, 1024, 1025]) };
    let what = rng.below(9);
    let kind = if what == 6 { Kind::Raw } else { *rng.pick(&[Kind::NoData, Kind::Raw, Kind::Mbuff, Kind::Fixed]) };
    let mut v: Vec<Insn> = Vec::with_capacity(n + 40);
    for r in 0..=9u8 {
        if r == 1 {
            continue; // r1 keeps the context pointer
        }
        let x = rng.next();
        v.push(Insn::new(LDDW, r, 0, 0, x as u32 as i32));
        v.push(Insn::new(0, 0, 0, 0, (x >> 32) as u32 as i32));
    }
    v.push(Insn::new(STDW, 10, 0, -8, 5));
    v.push(Insn::new(STDW, 10, 0, -16, -7));
    let d = *rng.pick(&[0u8, 3, 6, 7, 9]);
    let sr = *rng.pick(&[2u8, 4, 8, 5]);
    let one: Vec<Insn> = match what {
        0 => vec![Insn::new(ADD64_IMM, d, 0, 0, *rng.pick(&[1, -1, 0x7fff_ffff, 3]))],
        1 => vec![Insn::new(ADD64_REG, d, sr, 0, 0)],
        2 => vec![Insn::new(0x04, d, 0, 0, *rng.pick(&[1, -3, 0x1000]))], // add32 imm
        3 => vec![Insn::new(MUL64_IMM, d, 0, 0, 3)],
        4 => vec![Insn::new(XADD_DW, 10, sr, -8, 0)],
        5 => vec![Insn::new(XADD_W, 10, sr, -16, 0)],
        6 => vec![Insn::new(if rng.chance(1, 2) { XADD_DW } else { XADD_W }, 1, sr, 8, 0)], // packet word at +8
        7 => vec![Insn::new(STXDW, 10, d, -8, 0), Insn::new(ADD64_IMM, d, 0, 0, 1)],
        _ => vec![Insn::new(if rng.chance(1, 2) { BE } else { LE }, d, 0, 0, *rng.pick(&[16, 32, 64])), Insn::new(0x67, d, 0, 0, 1)], // swap; lsh 1
    };
    let per = one.len();
    for _ in 0..n.div_ceil(per) {
        v.extend(one.iter().cloned());
    }
    // fold
    v.push(Insn::new(MOV64_REG, 0, d, 0, 0));
    v.push(Insn::new(LDXDW, 5, 10, -8, 0));
    v.push(Insn::new(MUL64_IMM, 0, 0, 0, 0x01000193));
    v.push(Insn::new(XOR64_REG, 0, 5, 0, 0));
    v.push(Insn::new(LDXDW, 5, 10, -16, 0));
    v.push(Insn::new(MUL64_IMM, 0, 0, 0, 0x01000193));
    v.push(Insn::new(XOR64_REG, 0, 5, 0, 0));
    v.push(Insn::new(EXIT, 0, 0, 0, 0));
    let mut c = Case::new(kind, encode_prog(&v), "repeat");
    if kind != Kind::NoData {
        c.pkt = rng.bytes(32);
    }
    if kind == Kind::Mbuff {
        c.mbuff = rng.bytes(32);
    }
    c
}

pub fn gen_extreme_jumps() -> Case {
    let a = 32769usize;
    let mut v: Vec<Insn> = Vec::with_capacity(a + 4);
    v.push(Insn::new(MOV64_IMM, 0, 0, 0, 0));
    v.push(Insn::new(JA, 0, 0, 32767, 0)); // -> pc 32769
    while v.len() < a {
        v.push(Insn::new(MOV64_IMM, 6, 0, 0, 1));
    }
    v.push(Insn::new(ADD64_IMM, 0, 0, 0, 1)); // pc a
    v.push(Insn::new(JEQ_IMM, 0, 0, 1, 2)); // second pass: skip the back jump
    v.push(Insn::new(JA, 0, 0, -32768, 0)); // pc a+2 -> pc 4
    v.push(Insn::new(EXIT, 0, 0, 0, 0));
    let mut c = Case::new(Kind::NoData, encode_prog(&v), "long/extreme-jumps");
    c.class = "long/extreme-jumps".into();
    c
}
