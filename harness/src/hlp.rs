//! Helper functions registered by the monitors. Each is a deterministic function of (index, args)
//! so that the reference machine can predict its result, and each records its invocation.
//!
//! Two families: plain Rust functions, and "hostile but ABI-legal" entry shims (naked functions)
//! that record the stack pointer at entry, call the plain body on a re-aligned stack and then
//! overwrite every caller-saved general-purpose register before returning.

use std::sync::atomic::{AtomicU64, AtomicUsize, Ordering::Relaxed};

pub const NH: usize = 8;

#[derive(Clone, Copy, Debug, Default, PartialEq, Eq)]
pub struct LogEntry {
    pub j: u64,
    pub args: [u64; 5],
    /// stack pointer at helper entry (0 if not recorded)
    pub rsp: u64,
}

const LOG_CAP: usize = 4096;
static mut LOG: [LogEntry; LOG_CAP] = [LogEntry { j: 0, args: [0; 5], rsp: 0 }; LOG_CAP];
static LOG_LEN: AtomicUsize = AtomicUsize::new(0);
pub static CALLS: [AtomicU64; NH] = [const { AtomicU64::new(0) }; NH];

pub fn log_reset() {
    LOG_LEN.store(0, Relaxed);
    for c in &CALLS {
        c.store(0, Relaxed);
    }
}

pub fn log_take() -> Vec<LogEntry> {
    let n = LOG_LEN.load(Relaxed).min(LOG_CAP);
    let p = std::ptr::addr_of!(LOG) as *const LogEntry;
    unsafe { std::slice::from_raw_parts(p, n).to_vec() }
}

pub fn log_total() -> usize {
    LOG_LEN.load(Relaxed)
}

#[inline(never)]
fn record(j: u64, args: [u64; 5], rsp: u64) {
    let n = LOG_LEN.fetch_add(1, Relaxed);
    if n < LOG_CAP {
        unsafe {
            (std::ptr::addr_of_mut!(LOG) as *mut LogEntry).add(n).write(LogEntry { j, args, rsp });
        }
    }
    CALLS[j as usize % NH].fetch_add(1, Relaxed);
    if j == 6 {
        nested_run();
    }
}

/// Helper #6 is also a *re-entrant user of the crate*: while the calling program is suspended in
/// the helper call, it interprets another VM's program, which overwrites its own whole 512-byte
/// stack and its registers. Nothing of that may be visible to the caller (each execution has a
/// private stack and register file); the monitors' hooks are suspended meanwhile so that counts
/// and traces keep describing the outer execution only.
pub static NESTED_RUNS: AtomicU64 = AtomicU64::new(0);
fn nested_run() {
    use crate::engines::{hooks, Kind, Vm};
    use crate::isa::*;
    static PROG: std::sync::OnceLock<Vec<u8>> = std::sync::OnceLock::new();
    let prog = PROG.get_or_init(|| {
        let mut v: Vec<Insn> = Vec::new();
        for k in 1..=64i16 {
            v.push(Insn::new(STDW, 10, 0, -8 * k, 0x0bad_f00d));
        }
        for r in 0..10u8 {
            v.push(Insn::new(MOV64_IMM, r, 0, 0, 0x6b6b_6b00 + r as i32));
        }
        v.push(Insn::new(EXIT, 0, 0, 0, 0));
        encode_prog(&v)
    });
    hooks::suspended(|| {
        if let Ok(mut vm) = Vm::new(Kind::NoData, Some(prog), (0, 8)) {
            let _ = vm.exec((std::ptr::null_mut(), 0), (std::ptr::null_mut(), 0));
            NESTED_RUNS.fetch_add(1, Relaxed);
        }
    });
}

/// The value helper #j returns for these arguments.
pub fn value(j: u64, a: [u64; 5]) -> u64 {
    let mut h = 0x9e37_79b9_7f4a_7c15u64 ^ (j.wrapping_mul(0xd6e8_feb8_6659_fd93));
    for (k, x) in a.iter().enumerate() {
        h = (h ^ x.rotate_left(7 * k as u32 + 1)).wrapping_mul(0x2545_f491_4f6c_dd1d);
        h ^= h >> 29;
    }
    h
}

macro_rules! plain {
    ($name:ident, $j:expr) => {
        pub fn $name(a: u64, b: u64, c: u64, d: u64, e: u64) -> u64 {
            record($j, [a, b, c, d, e], 0);
            value($j, [a, b, c, d, e])
        }
    };
}
plain!(p0, 0);
plain!(p1, 1);
plain!(p2, 2);
plain!(p3, 3);
plain!(p4, 4);
plain!(p5, 5);
plain!(p6, 6);
plain!(p7, 7);

pub const PLAIN: [fn(u64, u64, u64, u64, u64) -> u64; NH] = [p0, p1, p2, p3, p4, p5, p6, p7];

#[cfg(not(miri))]
macro_rules! hostile {
    ($shim:ident, $body:ident, $j:expr) => {
        extern "C" fn $body(a: u64, b: u64, c: u64, d: u64, e: u64, rsp: u64) -> u64 {
            record($j, [a, b, c, d, e], rsp);
            value($j, [a, b, c, d, e])
        }
        #[unsafe(naked)]
        pub extern "C" fn $shim(_a: u64, _b: u64, _c: u64, _d: u64, _e: u64) -> u64 {
            core::arch::naked_asm!(
                "mov r9, rsp",          // 6th argument: stack pointer at entry
                "push rbp",
                "mov rbp, rsp",
                "and rsp, -16",         // body always runs on an aligned stack
                "call {body}",
                "mov rsp, rbp",
                "pop rbp",
                // overwrite every caller-saved GPR except the return value
                "mov rcx, 0x5a5a5a5a5a5a5a01",
                "mov rdx, 0x5a5a5a5a5a5a5a02",
                "mov rsi, 0x5a5a5a5a5a5a5a03",
                "mov rdi, 0x5a5a5a5a5a5a5a04",
                "mov r8,  0x5a5a5a5a5a5a5a05",
                "mov r9,  0x5a5a5a5a5a5a5a06",
                "mov r10, 0x5a5a5a5a5a5a5a07",
                "mov r11, 0x5a5a5a5a5a5a5a08",
                "ret",
                body = sym $body,
            )
        }
    };
}
#[cfg(not(miri))]
hostile!(h0, hb0, 0);
#[cfg(not(miri))]
hostile!(h1, hb1, 1);
#[cfg(not(miri))]
hostile!(h2, hb2, 2);
#[cfg(not(miri))]
hostile!(h3, hb3, 3);
#[cfg(not(miri))]
hostile!(h4, hb4, 4);
#[cfg(not(miri))]
hostile!(h5, hb5, 5);
#[cfg(not(miri))]
hostile!(h6, hb6, 6);
#[cfg(not(miri))]
hostile!(h7, hb7, 7);

#[cfg(miri)]
pub fn hostile(j: usize) -> fn(u64, u64, u64, u64, u64) -> u64 {
    PLAIN[j % NH]
}
#[cfg(miri)]
pub fn gentle(j: usize) -> fn(u64, u64, u64, u64, u64) -> u64 {
    PLAIN[j % NH]
}

#[cfg(not(miri))]
pub fn hostile(j: usize) -> fn(u64, u64, u64, u64, u64) -> u64 {
    let f: extern "C" fn(u64, u64, u64, u64, u64) -> u64 = [h0, h1, h2, h3, h4, h5, h6, h7][j % NH];
    // rbpf's helper type is a Rust-ABI fn pointer; for five integer arguments the Rust ABI and the
    // C ABI coincide on x86-64 (rbpf's own JIT relies on the same fact).
    unsafe { std::mem::transmute(f) }
}

/// "Gentle" shims: record rsp like the hostile ones but preserve all registers except rax, so
/// that monitors can separate ABI-alignment findings from clobber findings.
#[cfg(not(miri))]
macro_rules! gentle {
    ($shim:ident, $body:ident) => {
        #[unsafe(naked)]
        pub extern "C" fn $shim(_a: u64, _b: u64, _c: u64, _d: u64, _e: u64) -> u64 {
            core::arch::naked_asm!(
                "push rcx", "push rdx", "push rsi", "push rdi", "push r8", "push r9", "push r10", "push r11",
                "lea r9, [rsp + 64]",
                "push rbp",
                "mov rbp, rsp",
                "and rsp, -16",
                "call {body}",
                "mov rsp, rbp",
                "pop rbp",
                "pop r11", "pop r10", "pop r9", "pop r8", "pop rdi", "pop rsi", "pop rdx", "pop rcx",
                "ret",
                body = sym $body,
            )
        }
    };
}
#[cfg(not(miri))]
gentle!(g0, hb0);
#[cfg(not(miri))]
gentle!(g1, hb1);
#[cfg(not(miri))]
gentle!(g2, hb2);
#[cfg(not(miri))]
gentle!(g3, hb3);
#[cfg(not(miri))]
gentle!(g4, hb4);
#[cfg(not(miri))]
gentle!(g5, hb5);
#[cfg(not(miri))]
gentle!(g6, hb6);
#[cfg(not(miri))]
gentle!(g7, hb7);

#[cfg(not(miri))]
pub fn gentle(j: usize) -> fn(u64, u64, u64, u64, u64) -> u64 {
    let f: extern "C" fn(u64, u64, u64, u64, u64) -> u64 = [g0, g1, g2, g3, g4, g5, g6, g7][j % NH];
    unsafe { std::mem::transmute(f) }
}
