//! C19: built-in helpers against their sequential specifications.

use crate::report::Report;
use crate::sys::{self, CaseEnd, GuardBuf};
use crate::util::{Rng, fnv, hex};
use crate::Args;
use rbpf::helpers;
use serde_json::json;

/// floor(RN(sqrt(RN_f64(x)))) computed with integers only.
pub fn ref_sqrti(x: u64) -> u64 {
    if x == 0 {
        return 0;
    }
    // xf = x rounded to nearest-even 53-bit mantissa: xf = m * 2^e
    let bits = 64 - x.leading_zeros() as i32;
    let (m, e): (u128, i32) = if bits <= 53 {
        (x as u128, 0)
    } else {
        let sh = bits - 53;
        let mut m = (x >> sh) as u128;
        let rem = x & ((1u64 << sh) - 1);
        let half = 1u64 << (sh - 1);
        if rem > half || (rem == half && (m & 1) == 1) {
            m += 1;
        }
        // m may have become 2^53: still exactly representable
        (m, sh)
    };
    // value v = m * 2^e ; want s = RN53(sqrt(v)); then floor(s)
    // scale so that the integer square root carries >= 60 significant bits
    // v * 2^(2k) with 2k chosen such that e + 2k is even... make total exponent even first
    let (mut mm, mut ee) = (m, e);
    if ee % 2 != 0 {
        mm <<= 1;
        ee -= 1;
    }
    // now v = mm * 2^ee with ee even; mm < 2^55
    let mut k = 0i32;
    while mm < (1u128 << 118) {
        mm <<= 2;
        k += 1;
    }
    // sqrt(v) = isqrt(mm) * 2^(ee/2 - k) (plus fraction)
    let r = isqrt128(mm); // 2^59 <= r < 2^60
    let exact = r * r == mm;
    // round r (60 bits) to 53 bits, nearest even, with sticky from inexactness
    let drop = 60 - 53;
    let mut q = r >> drop;
    let rem = r & ((1 << drop) - 1);
    let half = 1u128 << (drop - 1);
    if rem > half || (rem == half && (!exact || (q & 1) == 1)) {
        q += 1;
    }
    // s = q * 2^(drop + ee/2 - k)
    let sh = drop + ee / 2 - k;
    if sh >= 0 { (q << sh) as u64 } else { (q >> (-sh)) as u64 }
}

fn isqrt128(n: u128) -> u128 {
    if n == 0 {
        return 0;
    }
    let mut x = 1u128 << ((128 - n.leading_zeros() + 1) / 2);
    loop {
        let y = (x + n / x) >> 1;
        if y >= x {
            return x;
        }
        x = y;
    }
}

fn isqrt64(n: u64) -> u64 {
    isqrt128(n as u128) as u64
}

fn viol(rep: &mut Report, helper: &str, kind: &str, detail: String, w: serde_json::Value) {
    rep.violation(&format!("C19:{helper}:{kind}"), detail, w);
}

/// Harness sanity check (not a verdict): the integer oracle must agree with IEEE hardware sqrt.
fn self_test() {
    let mut rng = Rng::new(99);
    for k in 0..200_000u64 {
        let x = match k % 4 {
            0 => rng.next(),
            1 => rng.below(1 << 53),
            2 => {
                let r = rng.below(1 << 32);
                (r * r).wrapping_add(rng.range(-2, 2) as u64)
            }
            _ => u64::MAX - rng.below(5000),
        };
        let hw = (x as f64).sqrt() as u64;
        if ref_sqrti(x) != hw {
            eprintln!("HARNESS-ERROR: ref_sqrti({x}) = {} but hardware gives {hw}", ref_sqrti(x));
            std::process::exit(3);
        }
    }
}

pub fn run(a: &Args, rep: &mut Report) {
    #[cfg(not(miri))]
    self_test();
    let mut rng = Rng::derive(a.seed, a.shard, 19);
    let q = a.tier == "quick";
    let n = ((if q { 1_000_000.0 } else { 60_000_000.0 }) * a.scale) as u64 / a.nshards;

    // ---- gather_bytes ----
    for k in 0..n {
        let t: Vec<u64> = (0..5).map(|_| if rng.chance(1, 2) { rng.below(256) } else { rng.interesting_u64().0 }).collect();
        let want = t[0].wrapping_shl(32) | t[1].wrapping_shl(24) | t[2].wrapping_shl(16) | t[3].wrapping_shl(8) | t[4];
        rep.case(Some(fnv(format!("g{t:?}").as_bytes())));
        match sys::catch(|| helpers::gather_bytes(t[0], t[1], t[2], t[3], t[4])) {
            Ok(g) if g == want => {}
            Ok(g) => viol(rep, "gather_bytes", "value", format!("gather_bytes{t:?} = {g:#x}, expected {want:#x}"), json!({"helper": "gather_bytes", "args": t})),
            Err(p) => viol(rep, "gather_bytes", "panic", p, json!({"helper": "gather_bytes", "args": t})),
        }
        if k == 5 {
            rep.sample(json!({"helper": "gather_bytes", "args": t, "result": want}));
        }
    }
    rep.set("helpers", "gather_bytes");

    // ---- sqrti ----
    for k in 0..n {
        let x = match k % 8 {
            0 => {
                let r = rng.below(1 << 26);
                (r * r).wrapping_add(rng.range(-1, 1) as u64)
            }
            1 => {
                let r = rng.below(1 << 32);
                (r.wrapping_mul(r)).wrapping_add(rng.range(-2, 2) as u64)
            }
            2 => (1u64 << 52).wrapping_add(rng.range(-4, 4) as u64),
            3 => (1u64 << 53).wrapping_add(rng.range(-4, 4) as u64),
            4 => u64::MAX - rng.below(2048),
            5 => rng.below(1 << 52),
            6 => rng.interesting_u64().0,
            _ => rng.next(),
        };
        rep.case(Some(fnv(format!("s{x}").as_bytes())));
        let want = ref_sqrti(x);
        match sys::catch(|| helpers::sqrti(x, rng.0, 1, 2, 3)) {
            Ok(g) => {
                if g != want {
                    viol(rep, "sqrti", "value", format!("sqrti({x}) = {g}, double-precision square root truncated = {want}"), json!({"helper": "sqrti", "arg": x}));
                } else if x < (1 << 52) && g != isqrt64(x) {
                    viol(rep, "sqrti", "not-isqrt", format!("sqrti({x}) = {g}, exact integer square root = {}", isqrt64(x)), json!({"helper": "sqrti", "arg": x}));
                }
            }
            Err(p) => viol(rep, "sqrti", "panic", p, json!({"helper": "sqrti", "arg": x})),
        }
        if k == 7 {
            rep.sample(json!({"helper": "sqrti", "arg": x, "result": want}));
        }
    }
    rep.set("helpers", "sqrti");

    // ---- rand ----
    let n_pairs = if cfg!(miri) { 10 } else { (n / 200).max(50) };
    for k in 0..n_pairs {
        let (min, max) = match k % 10 {
            0 => (0u64, u64::MAX),
            1 => (1, u64::MAX),
            2 => (0, u64::MAX - 1),
            3 => {
                let m = rng.next();
                (m.saturating_sub(1), m)
            }
            4 => (u64::MAX - 1, u64::MAX),
            5 => (0, 1),
            6 => {
                // min >= max: no range promise, must still not panic
                let m = rng.next();
                (m, rng.below(m.max(1)))
            }
            7 => (5, 5),
            _ => {
                let x = rng.interesting_u64().0;
                let y = rng.interesting_u64().0;
                (x.min(y), x.max(y))
            }
        };
        let draws = if cfg!(miri) { 20 } else if q { 200 } else { 2000 };
        let mut lo_seen = u64::MAX;
        let mut hi_seen = 0u64;
        for _ in 0..draws {
            rep.case(None);
            match sys::catch(|| helpers::rand(min, max, 0, 0, 0)) {
                Ok(v) => {
                    lo_seen = lo_seen.min(v);
                    hi_seen = hi_seen.max(v);
                    if min < max && (v < min || v > max) {
                        viol(rep, "rand", "out-of-range", format!("rand({min}, {max}) = {v}"), json!({"helper": "rand", "min": min, "max": max}));
                        break;
                    }
                }
                Err(p) => {
                    viol(rep, "rand", &format!("panic:{}", sys::panic_site(&p)), format!("rand({min}, {max}) panicked: {p}"), json!({"helper": "rand", "min": min, "max": max}));
                    break;
                }
            }
        }
        rep.hashes.insert(fnv(format!("r{min},{max}").as_bytes()));
        if k == 8 {
            rep.sample(json!({"helper": "rand", "min": min, "max": max, "draws": draws, "observed_min": lo_seen, "observed_max": hi_seen}));
        }
    }
    rep.set("helpers", "rand");

    // ---- accumulation: every helper called 140,000 more times on this thread (more than 2 x 2^16:
    // per-thread counters, reseeding periods, caches), each call judged ----
    if !cfg!(miri) {
        let reps: u64 = if sys::cpu_scale() > 1 { 3_000 } else { 140_000 };
        let a_str = *b"abc\0";
        let b_str = *b"abd\0";
        let mut buf = [0x11u8, 0x22, 0x33, 0x44, 0x55, 0x66];
        let mut first_bad: Option<(String, String)> = None;
        for k in 0..reps {
            let r = sys::catch(|| {
                let v = helpers::rand(3, 10, 0, 0, 0);
                if !(3..=10).contains(&v) {
                    return Some(("rand", format!("rand(3, 10) = {v} at call #{k} on this thread")));
                }
                if helpers::gather_bytes(1, 2, 3, 4, 5) != 0x0102030405 {
                    return Some(("gather_bytes", format!("gather_bytes(1,2,3,4,5) wrong at call #{k}")));
                }
                let x = k.wrapping_mul(7919) & 0x3ff_ffff;
                if helpers::sqrti(x * x, 0, 0, 0, 0) != x {
                    return Some(("sqrti", format!("sqrti({}) != {x} at call #{k}", x * x)));
                }
                if helpers::strcmp(a_str.as_ptr() as u64, b_str.as_ptr() as u64, 0, 0, 0) != 1 || helpers::strcmp(a_str.as_ptr() as u64, a_str.as_ptr() as u64, 0, 0, 0) != 0 {
                    return Some(("strcmp", format!("strcmp wrong at call #{k}")));
                }
                helpers::memfrob(buf.as_mut_ptr() as u64 + 1, 4, 0, 0, 0);
                let mid = buf;
                helpers::memfrob(buf.as_mut_ptr() as u64 + 1, 4, 0, 0, 0);
                if mid != [0x11, 0x22 ^ 0x2a, 0x33 ^ 0x2a, 0x44 ^ 0x2a, 0x55 ^ 0x2a, 0x66] || buf != [0x11, 0x22, 0x33, 0x44, 0x55, 0x66] {
                    return Some(("memfrob", format!("memfrob wrong at call #{k}: {mid:x?} / {buf:x?}")));
                }
                None
            });
            rep.case(None);
            match r {
                Ok(None) => {}
                Ok(Some((h, d))) => {
                    first_bad = Some((format!("{h}:value:after-many-calls"), d));
                    break;
                }
                Err(p) => {
                    first_bad = Some((format!("panic:{}:after-many-calls", sys::panic_site(&p)), format!("a helper panicked at round #{k} of repeated calls on one thread: {p}")));
                    break;
                }
            }
        }
        rep.add("repeated_helper_rounds_on_one_thread", reps);
        if let Some((k, d)) = first_bad {
            viol(rep, "helpers", &k, d, json!({"helper": "rand/gather_bytes/sqrti/strcmp/memfrob", "rounds": reps}));
        }
    }

    // ---- bpf_trace_printf: count the bytes that really reach stdout ----
    if !cfg!(miri) {
        use std::io::Write;
        let path = format!("{}.stdout", if a.out.is_empty() { "/tmp/mon_c19".to_string() } else { a.out.clone() });
        let cpath = std::ffi::CString::new(path.clone()).unwrap();
        let _ = std::io::stdout().flush();
        let (saved, fd) = unsafe {
            let fd = libc::open(cpath.as_ptr(), libc::O_RDWR | libc::O_CREAT | libc::O_TRUNC, 0o600);
            let saved = libc::dup(1);
            libc::dup2(fd, 1);
            (saved, fd)
        };
        let n_p = (n / 40).max(500);
        let mut bad: Vec<(String, String, serde_json::Value)> = Vec::new();
        let mut par_args: Vec<[u64; 3]> = Vec::new();
        for k in 0..n_p {
            let t: Vec<u64> = (0..3)
                .map(|_| match rng.below(8) {
                    0 => 0,
                    1 => 1u64 << (4 * rng.below(16)),
                    2 => (1u64 << (4 * rng.below(16))).wrapping_sub(1),
                    3 => u64::MAX,
                    4 => u64::MAX - rng.below(1 << 12),
                    5 => (1u64 << 53) + rng.below(3),
                    _ => rng.interesting_u64().0,
                })
                .collect();
            rep.case(Some(fnv(format!("p{t:?}").as_bytes())));
            let before = unsafe { libc::lseek(fd, 0, libc::SEEK_END) };
            let r = sys::catch(|| {
                let r = helpers::bpf_trace_printf(rng.0, 7, t[0], t[1], t[2]);
                let _ = std::io::stdout().flush();
                r
            });
            let after = unsafe { libc::lseek(fd, 0, libc::SEEK_END) };
            let written = (after - before) as u64;
            match r {
                Ok(v) => {
                    if v != written && bad.len() < 50 {
                        let digits: Vec<u32> = t.iter().map(|x| if *x == 0 { 1 } else { (64 - x.leading_zeros() + 3) / 4 }).collect();
                        bad.push((format!("return-value:{}", if digits.iter().any(|d| *d == 16) { "16-digit-arg" } else { "power-of-16-boundary" }), format!("bpf_trace_printf(_, _, {:#x}, {:#x}, {:#x}) returned {v} but printed {written} bytes", t[0], t[1], t[2]), json!({"helper": "bpf_trace_printf", "args": t})));
                    }
                }
                Err(p) => bad.push((format!("panic:{}", sys::panic_site(&p)), p, json!({"helper": "bpf_trace_printf", "args": t}))),
            }
            if k == 3 {
                rep.sample(json!({"helper": "bpf_trace_printf", "args": t, "bytes_printed": written}));
            }
            if par_args.len() < 3000 {
                par_args.push([t[0], t[1], t[2]]);
            }
            if after > (1 << 26) {
                unsafe {
                    libc::ftruncate(fd, 0);
                    libc::lseek(fd, 0, libc::SEEK_SET);
                }
            }
        }
        // 8 threads printing at once (stdout still redirected): each call must return what the
        // same call returned alone - the number of bytes of ITS line
        let (pexecs, pbad) = crate::mon_par::par_same(&par_args, |t| sys::catch(|| helpers::bpf_trace_printf(0, 7, t[0], t[1], t[2])).map_err(|p| sys::panic_site(&p)), if q { 2 } else { 6 });
        unsafe {
            libc::ftruncate(fd, 0);
            libc::lseek(fd, 0, libc::SEEK_SET);
        }
        unsafe {
            let _ = std::io::stdout().flush();
            libc::dup2(saved, 1);
            libc::close(saved);
            libc::close(fd);
            libc::unlink(cpath.as_ptr());
        }
        for (k, d, w) in bad {
            viol(rep, "bpf_trace_printf", &k, d, w);
        }
        crate::mon_par::report_par(rep, "C19", "bpf_trace_printf", pexecs, pbad, |i| json!({"helper": "bpf_trace_printf", "args": par_args[i]}));
        rep.set("helpers", "bpf_trace_printf");
    }

    // ---- the pure helpers called by 8 threads at once, each on its own arguments and buffers ----
    if !cfg!(miri) {
        #[derive(Debug)]
        enum Item {
            Gather([u64; 5]),
            Sqrt(u64),
            Frob(Vec<u8>),
            Cmp(Vec<u8>, Vec<u8>),
        }
        let mut items: Vec<Item> = Vec::new();
        for k in 0..4000u64 {
            items.push(match k % 4 {
                0 => Item::Gather([rng.interesting_u64().0, rng.below(256), rng.next(), rng.below(1 << 20), rng.below(256)]),
                1 => Item::Sqrt(if k % 8 == 1 { let r = rng.below(1 << 32); (r * r).wrapping_sub(rng.below(2)) } else { rng.interesting_u64().0 }),
                2 => {
                    let l = *rng.pick(&[0usize, 1, 7, 8, 9, 64, 300]);
                    Item::Frob(rng.bytes(l))
                }
                _ => {
                    let mut a1: Vec<u8> = (0..rng.below(40)).map(|_| 1 + rng.below(255) as u8).collect();
                    let mut b1 = a1.clone();
                    if rng.chance(1, 2) && !b1.is_empty() {
                        let i = rng.below(b1.len() as u64) as usize;
                        b1[i] = b1[i].wrapping_add(1).max(1);
                    }
                    a1.push(0);
                    b1.push(0);
                    Item::Cmp(a1, b1)
                }
            });
        }
        let f = |it: &Item| -> Result<(u64, Vec<u8>), String> {
            sys::catch(|| match it {
                Item::Gather(t) => (helpers::gather_bytes(t[0], t[1], t[2], t[3], t[4]), Vec::new()),
                Item::Sqrt(x) => (helpers::sqrti(*x, 0, 0, 0, 0), Vec::new()),
                Item::Frob(b) => {
                    let mut own = b.clone();
                    let r = helpers::memfrob(own.as_mut_ptr() as u64, own.len() as u64, 0, 0, 0);
                    (r, own)
                }
                Item::Cmp(x, y) => (helpers::strcmp(x.as_ptr() as u64, y.as_ptr() as u64, 0, 0, 0), Vec::new()),
            })
            .map_err(|p| sys::panic_site(&p))
        };
        let (execs, bad) = crate::mon_par::par_same(&items, f, if q { 3 } else { 10 });
        crate::mon_par::report_par(rep, "C19", "helpers", execs, bad, |i| json!({"item": format!("{:?}", items[i]).chars().take(200).collect::<String>()}));
    }
    // ---- memfrob / strcmp on guard-paged buffers, in forked children ----
    let n_mem = if cfg!(miri) { 40 } else { (n / 60).max(400) as usize };
    struct MCase {
        kind: u8, // 0 memfrob, 1 strcmp
        a: Vec<u8>,
        b: Vec<u8>,
        end_aligned: bool,
        null: u8,
        off: usize,
        len: usize,
    }
    let mut cases: Vec<MCase> = Vec::new();
    for k in 0..n_mem {
        if k % 2 == 0 {
            let total = if k % 64 == 2 { *rng.pick(if cfg!(miri) { &[8_191usize, 8_192, 8_193, 12_000, 16_384] } else { &[65_535usize, 65_536, 65_537, 70_000, 1 << 20] }) } else { *rng.pick(&[0usize, 1, 2, 7, 8, 9, 63, 64, 65, 255, 4095, 4096, 4097]) };
            let off = if total == 0 { 0 } else { rng.below(total.min(9) as u64) as usize };
            let len = if rng.chance(1, 3) { total - off } else { rng.below((total - off) as u64 + 1) as usize };
            cases.push(MCase { kind: 0, a: rng.bytes(total), b: Vec::new(), end_aligned: rng.chance(1, 2), null: 0, off, len });
        } else {
            let la = if k % 64 == 3 { *rng.pick(if cfg!(miri) { &[4_095usize, 4_096, 4_097, 8_192, 10_000, 10_001, 10_002, 10_003, 10_004, 10_005] } else { &[65_534usize, 65_535, 65_536, 65_537, 70_000, 200_000, (1 << 20) - 1, 1 << 20, (1 << 20) + 1, 3_000_000] }) } else { *rng.pick(&[0usize, 1, 2, 5, 16, 100, 1000]) };
            let mut sa: Vec<u8> = (0..la).map(|_| 1 + rng.below(255) as u8).collect();
            let mut sb = sa.clone();
            match if la > 60_000 { *rng.pick(&[0u64, 3, 4, 4, 2]) } else { rng.below(6) } {
                0 => {}
                1 => {
                    if la > 0 {
                        let i = rng.below(la as u64) as usize;
                        sb[i] = sb[i].wrapping_add(1 + rng.below(254) as u8).max(1);
                    }
                }
                2 => {
                    let c = rng.below(la as u64 + 1) as usize;
                    sb.truncate(c);
                }
                3 => sb.push(1 + rng.below(255) as u8),
                4 => {
                    if la > 0 {
                        sa[la - 1] = 0xff;
                        sb[la - 1] = 0x01;
                    }
                }
                _ => {
                    sb = (0..rng.below(20)).map(|_| 1 + rng.below(255) as u8).collect();
                }
            }
            sa.push(0);
            sb.push(0);
            cases.push(MCase { kind: 1, a: sa, b: sb, end_aligned: true, null: if rng.chance(1, 12) { 1 + rng.below(3) as u8 } else { 0 }, off: 0, len: 0 });
        }
    }
    let ends = sys::run_batch(cases.len(), 60, 60, |i, out| {
        let c = &cases[i];
        if c.kind == 0 {
            let g = GuardBuf::new(c.a.len(), c.end_aligned, false);
            g.fill(&c.a);
            let r = sys::catch(|| helpers::memfrob(g.addr() + c.off as u64, c.len as u64, 11, 12, 13));
            let r2 = sys::catch(|| helpers::memfrob(g.addr() + c.off as u64, c.len as u64, 0, 0, 0));
            let once_restored = g.as_slice() == &c.a[..];
            // redo once to report the bytes after a single application
            let _ = sys::catch(|| helpers::memfrob(g.addr() + c.off as u64, c.len as u64, 0, 0, 0));
            out.push(match (&r, &r2) {
                (Ok(_), Ok(_)) => 0,
                _ => 1,
            });
            out.push(once_restored as u8);
            out.push(g.canary_ok() as u8);
            out.extend_from_slice(g.as_slice());
        } else {
            let ga = GuardBuf::new(c.a.len(), true, false);
            let gb = GuardBuf::new(c.b.len(), true, false);
            ga.fill(&c.a);
            gb.fill(&c.b);
            let pa = if c.null & 1 != 0 { 0 } else { ga.addr() };
            let pb = if c.null & 2 != 0 { 0 } else { gb.addr() };
            let r = sys::catch(|| helpers::strcmp(pa, pb, 21, 22, 23));
            match r {
                Ok(v) => {
                    out.push(0);
                    out.extend_from_slice(&v.to_le_bytes());
                }
                Err(_) => out.push(1),
            }
            out.push((ga.as_slice() == &c.a[..] && gb.as_slice() == &c.b[..] && ga.canary_ok() && gb.canary_ok()) as u8);
        }
    });
    for (c, e) in cases.iter().zip(ends.iter()) {
        let name = if c.kind == 0 { "memfrob" } else { "strcmp" };
        rep.case(Some(fnv(&[&c.a[..], &c.b[..], &[c.kind, c.null, c.off as u8, c.len as u8]].concat())));
        let w = json!({"helper": name, "a": hex(&c.a[..c.a.len().min(64)]), "b": hex(&c.b[..c.b.len().min(64)]), "off": c.off, "len": c.len, "null": c.null, "end_aligned": c.end_aligned});
        match e {
            CaseEnd::Died(s, _) => viol(rep, name, &format!("signal-{}", sys::signame(*s)), format!("{name} was killed by {} on arguments that respect its preconditions", sys::signame(*s)), w),
            CaseEnd::CpuTimeout => viol(rep, name, "diverged", format!("{name} did not return"), w),
            CaseEnd::Inconclusive(s) => rep.inconclusive(format!("{name}: {s}")),
            CaseEnd::Done(b) => {
                if c.kind == 0 {
                    if b[0] != 0 {
                        viol(rep, name, "panic", "memfrob panicked".into(), w);
                        continue;
                    }
                    let mut want = c.a.clone();
                    for x in want[c.off..c.off + c.len].iter_mut() {
                        *x ^= 0x2a;
                    }
                    if b[3..] != want[..] {
                        viol(rep, name, "bytes", format!("memfrob(ptr+{}, {}) changed the wrong bytes", c.off, c.len), w);
                    } else if b[1] == 0 {
                        viol(rep, name, "not-involutive", "applying memfrob twice did not restore the bytes".into(), w);
                    } else if b[2] == 0 {
                        viol(rep, name, "canary", "bytes outside the buffer changed".into(), w);
                    }
                } else {
                    if b[0] != 0 {
                        viol(rep, name, "panic", "strcmp panicked".into(), w);
                        continue;
                    }
                    let v = u64::from_le_bytes(b[1..9].try_into().unwrap());
                    let want = if c.null != 0 {
                        u64::MAX
                    } else {
                        let mut i = 0;
                        while c.a[i] == c.b[i] && c.a[i] != 0 {
                            i += 1;
                        }
                        (c.a[i] as i64 - c.b[i] as i64).unsigned_abs()
                    };
                    if v != want {
                        viol(rep, name, "value", format!("strcmp = {v}, expected {want}"), w);
                    } else if b[9] == 0 {
                        viol(rep, name, "wrote-memory", "strcmp modified memory".into(), w);
                    }
                }
            }
        }
    }
    rep.set("helpers", "memfrob");
    rep.set("helpers", "strcmp");
    if let Some(c) = cases.first() {
        rep.sample(json!({"helper": "memfrob", "buffer_len": c.a.len(), "off": c.off, "len": c.len, "placement": if c.end_aligned { "end against PROT_NONE page" } else { "start after PROT_NONE page" }}));
    }
}
