#!/usr/bin/env python3
"""Regenerates MANIFEST.json from the table below (kept in one place so it stays valid)."""
import json, subprocess
PROPS = json.load(open('/verif/manifest_src.json'))
ids=[json.loads(l)['id'] for l in open('/verif/properties.jsonl')]
hooks_commits = subprocess.check_output(['git','-C','/repo','log','--format=%h %s','--grep=^verif-hooks']).decode().strip().split('\n')
m = {
 "version": 1,
 "setup_cmd": "cd /verif && ./check setup",
 "hooks": {
  "guard": "cargo feature `verif-hooks` of rbpf (off by default)",
  "enable": "the harness crate /verif/harness depends on rbpf = { path = \"/repo\", features = [\"verif-hooks\", ...] }; every check runs `cargo build` there, which rebuilds rbpf from /repo's working tree",
  "baseline_off_cmd": "cd /repo && cargo test --workspace --no-fail-fast --offline",
  "source_commits": [c.split()[0] for c in hooks_commits if c],
  "add_only": True
 },
 "engines": [
  {"name": "mon", "path": "/verif/harness", "serves_properties": [p for p in ids if p in PROPS['checks']],
   "kind_free_text": "Rust monitor binary (reference machine, generators, forked-child runners, guard pages) driven by /verif/check; variants: release, overflow-checking, ASan, TSan, Miri, valgrind, no_std"}
 ],
 "checks": [],
 "notes": "Runtime monitoring only. Known findings: /verif/known_findings.json. DESIGN.md explains the oracles.",
 "not_applicable": []
}
for pid in ids:
    c = PROPS['checks'].get(pid)
    if c is None:
        m['not_applicable'].append({"property_id": pid, "reason": PROPS['na'].get(pid, "monitor not built yet (work in progress in this session); not claimed")})
        continue
    m['checks'].append({
      "property_id": pid,
      "quick_cmd": f"./check {pid} quick",
      "thorough_cmd": f"./check {pid} thorough",
      "evidence_file": f"/verif/evidence/{pid}.json",
      "replay_cmd_template": f"./check {pid} --replay {{path}}",
      "engine": "mon",
      "level_claimed": {"category": "exploration", "text": c['text'], "design_ref": c.get('design_ref', f"DESIGN.md section 3 ({pid})")},
      "level_note": c['note'],
      "technique": c['technique'],
    })
json.dump(m, open('/verif/MANIFEST.json','w'), indent=1)
print(len(m['checks']), 'checks,', len(m['not_applicable']), 'n/a')
