#!/usr/bin/env python3
import json,sys,glob,struct
def dis(h):
    b=bytes.fromhex(h); out=[]; n=len(b)//8; pc=0
    while pc<n:
        opc,regs,off,imm=struct.unpack_from('<BBhi',b,pc*8)
        if opc==0x18 and pc+1<n:
            hi=struct.unpack_from('<BBhi',b,pc*8+8)[3]
            out.append(f'{pc}: lddw r{regs&15}, {((hi&0xffffffff)<<32)|(imm&0xffffffff):#x}'); pc+=2; continue
        if not (opc==5 and off==0):
            out.append(f'{pc}: op={opc:#04x} dst=r{regs&15} src=r{regs>>4} off={off} imm={imm:#x}')
        pc+=1
    return '\n'.join(out[:80])+f'\n({n} slots)'
prop,pat=sys.argv[1],sys.argv[2]
n=int(sys.argv[3]) if len(sys.argv)>3 else 1
for f in sorted(glob.glob(f'replays/{prop}/*.json')):
    d=json.load(open(f))
    if pat in d['signature']:
        c=d['replay'].get('case',{})
        print(f, d['signature'], d['variant']); print(d['detail'][:600])
        print({k:v for k,v in c.items() if k not in('disasm','prog','pkt','mbuff')})
        print(dis(c.get('prog','')))
        print('interp',d['replay'].get('interp'),'ref',d['replay'].get('ref'))
        n-=1
        if n<=0: break
